"""C08 - every request gets exactly one response, delivered to its own requester.

Decides the response-ledger shape of _dispatch_request / _dispatch / _seq_request_callback /
_async_request / _get_seq_id on all CFG paths (R08.1-R08.5); not the behaviour of peers."""
import ast

from .. import astutil as A
from .. import cfgq as Q
from ..engine import std_raises
from ..loader import AnalysisError
from . import common as K

ENC = {TypeError, ValueError, OverflowError}      # data-dependent encode failures (brine.dump / boxing)


def sender_methods(ctx):
    """Connection methods forming the send layer: those writing the channel, and those that encode with
    brine.dump and hand on to one of the former."""
    cls = ctx.cls(K.CONN)
    low = {n for n, f in cls.methods.items() if A.find_calls(f.node, "self._channel.send")}
    if not low:
        raise AnalysisError("no Connection method writes self._channel.send")
    enc = set()
    for n, f in cls.methods.items():
        if n in low:
            continue
        prm = set(A.params(f.node))
        for d in A.find_calls(f.node, "brine.dump"):
            # a generic encoder dumps a tuple built from its own parameters and hands it to the write layer
            if d.args and isinstance(d.args[0], ast.Tuple) and all(
                    isinstance(e, ast.Name) and e.id in prm for e in d.args[0].elts) and \
                    any(A.find_calls(f.node, "self." + l) for l in low):
                enc.add(n)
    encodes = {n for n in low | enc if A.find_calls(cls.methods[n].node, "brine.dump")}
    return low | enc, encodes


def msg_kind_of_send(ctx, g, rd, node, call):
    """(kind_value, seq_expr, payload_expr) of a send-layer call at CFG node `node`; kind None if unknown"""
    if len(call.args) >= 3:
        kind = ctx.try_fold(call.args[0])
        return kind, call.args[1], call.args[2]
    if len(call.args) == 1 and isinstance(call.args[0], ast.Name):
        defs = rd.at(node, call.args[0].id)
        kinds = set()
        seqe = pay = None
        for d in defs:
            if d == "param":
                return None, None, None
            dumps = A.find_calls(d.ast, "brine.dump")
            if not dumps or not dumps[0].args or not isinstance(dumps[0].args[0], ast.Tuple) \
                    or len(dumps[0].args[0].elts) != 3:
                return None, None, None
            t = dumps[0].args[0]
            kinds.add(ctx.try_fold(t.elts[0]))
            seqe, pay = t.elts[1], t.elts[2]
        if len(kinds) == 1:
            return kinds.pop(), seqe, pay
    return None, None, None


def propagate_guarded(g, raise_node):
    """is every path from an exception-handler entry to this bare raise taking the positive edge of a test on a
    configuration key propagate_*_locally?"""
    gates = {n.id for n in g.live if n.kind == "test" and isinstance(n.ast, ast.Subscript)
             and (A.const_str(n.ast.slice) or "").startswith("propagate_") and (A.const_str(n.ast.slice) or "").endswith("_locally")}
    if not gates:
        return False
    entries = [n for n in g.live if n.kind == "except"]
    p = Q.find_path_ef(entries, lambda x: x is raise_node,
                       lambda a, b, l: l != "exc" and not (a.id in gates and l == "true"))
    return p is None


_LOCAL_EXC = ("SystemExit", "KeyboardInterrupt")


def propagate_exact(g, raise_node):
    """None when every path from a handler entry to the bare raise takes the positive edge of an exact class test
    (`t is SystemExit`, `type(v) == KeyboardInterrupt`, `t in (SystemExit, ..)`); otherwise "subclass" when such a path passes
    an isinstance/issubclass test on those classes (exceptions rebuilt from the wire are subclasses), else "unknown" """
    def mentions(e):
        return any(isinstance(x, ast.Name) and x.id in _LOCAL_EXC for x in ast.walk(e))
    exact = {n.id for n in g.live if n.kind == "test" and isinstance(n.ast, ast.Compare) and len(n.ast.ops) == 1 and
             isinstance(n.ast.ops[0], (ast.Is, ast.Eq, ast.In)) and mentions(n.ast)}
    loose = {n.id for n in g.live if n.kind == "test" and isinstance(n.ast, ast.Call) and
             A.call_name(n.ast) in ("isinstance", "issubclass") and mentions(n.ast)}
    entries = [n for n in g.live if n.kind == "except"]
    p = Q.find_path_ef(entries, lambda x: x is raise_node,
                       lambda a, b, l: l != "exc" and not (a.id in exact and l == "true"))
    if p is None:
        return None
    return "subclass" if any(getattr(x, "id", None) in loose for x in p) else "unknown"


def run(ctx, rep):
    rep.rule("R08.1", "exactly one completed response send on every normal path of _dispatch_request, bearing the "
                      "unmodified request seq; handler invoked at most once; MSG_REPLY only on the no-exception continuation")
    rep.rule("R08.2", "a reply that cannot be encoded still answers: encode failures of the reply lead to one MSG_EXCEPTION")
    rep.rule("R08.3", "responses are routed by their own sequence number: one dict.pop(seq) and only the popped callback runs, once")
    rep.rule("R08.4", "registration precedes transmission; a failed send unregisters the same key")
    rep.rule("R08.5", "sequence numbers come from one per-connection itertools.count via a single next()")
    rep.rule("R08.7", "decoding a well-formed response cannot fail before it is delivered: total class lookups, vetted classes (= R09.4, R09.5)")
    rep.rule("R08.6", "an encoded response is actually transmitted: the send layer never strands a queued message (= R12.1-R12.3)")
    rep.rule("R08.8", "the pending-request table holds its entries strongly and sequence numbers come from one never-reset counter")
    rep.rule("R08.9", "a request is executed at most once: the call handler invokes its target exactly once, no retry (= R01.2)")
    rep.rule("R08.11", "a response that arrives is delivered: a result object has no deadline nobody asked for, and a reply in time "
             "is recorded (= R15.1)")
    rep.rule("R08.10", "each pending request has its own result object state: no mutable default / class-level table shared between AsyncResults")
    rep.assume("exceptions of the encode step are TypeError/ValueError(UnicodeError)/OverflowError; transmit failures are "
               "EOFError/OSError and may leave _dispatch_request (the connection is dead then, C11)",
               "undecodable frames (no sequence number known) are out of scope",
               "asynchronous exceptions get no CFG edges")
    MSG_REQUEST = ctx.const("rpyc.core.consts", "MSG_REQUEST")
    MSG_REPLY = ctx.const("rpyc.core.consts", "MSG_REPLY")
    MSG_EXC = ctx.const("rpyc.core.consts", "MSG_EXCEPTION")
    senders, encoders = sender_methods(ctx)
    rep.info("send layer of Connection: %s (encoding: %s)" % (sorted(senders), sorted(encoders)))

    # ------------------------------------------------------------------ R08.1 / R08.2
    f = ctx.func(K.CONN + "._dispatch_request")
    fn = f.node
    prm = A.params(fn)
    if len(prm) < 3:
        raise AnalysisError("_dispatch_request no longer takes (self, seq, raw_args)")
    seq_param = prm[1]
    g = ctx.cfg(f)
    rep.analysed(f, g)
    rd = Q.ReachingDefs(g)
    send_sites = []   # (node, call, kind, seq_expr, payload)
    for n in g.live:
        if n.ast is None or n.kind not in ("stmt", "test"):
            continue
        for c in A.calls(n.ast):
            d = A.call_name(c) or ""
            if d.startswith("self.") and d[5:] in senders:
                kind, seqe, pay = msg_kind_of_send(ctx, g, rd, n, c)
                send_sites.append((n, c, kind, seqe, pay))
    rep.floor("R08.1", "response send sites in _dispatch_request", len(send_sites), 2)
    send_nodes = {n.id for n, *_ in send_sites}
    for n, c, kind, seqe, pay in send_sites:
        okk = kind in (MSG_REPLY, MSG_EXC)
        rep.ob("R08.1", "_dispatch_request: `%s` is a response" % A.norm(c)[:70], okk,
               "message kind folds to %r (reply/exception)" % (kind,) if okk else
               "a message sent while answering a request has kind %r, not MSG_REPLY/MSG_EXCEPTION" % (kind,),
               ctx.loc(c), kind="table")
        oks = isinstance(seqe, ast.Name) and seqe.id == seq_param and rd.at(n, seq_param) == {"param"}
        rep.ob("R08.1", "_dispatch_request: `%s` bears the request's own seq" % A.norm(c)[:70], oks,
               "second slot is the unmodified `%s` parameter" % seq_param if oks else
               "the response does not carry the unmodified sequence number of the request (got `%s`)"
               % (A.src(seqe) if seqe is not None else "?"), ctx.loc(c))
    counts = Q.count_on_paths(g, g.entry, lambda n: n.id in send_nodes)
    at_exit = counts.get(g.exit.id, frozenset())
    ok = at_exit == frozenset([1])
    wit = None
    if not ok:
        # witness: a normal path with 0 sends, if any
        p = Q.find_path_ef(g.entry, lambda x: x is g.exit,
                           lambda a, b, l: l != "exc" and a.id not in send_nodes and True)
        if p and all(x.id not in send_nodes for x in p):
            wit = ctx.path(p)
    rep.ob("R08.1", "_dispatch_request: number of responses on a normal return", ok,
           "every path to the normal exit completes exactly one response send" if ok else
           "possible numbers of completed response sends at the normal exit: %s (must be exactly 1)"
           % sorted(at_exit), f.loc, witness=wit)
    # handler invocation: call whose callee is a subscript of self._HANDLERS (or the dispatch table)
    hcalls = []
    for n in g.live:
        if n.ast is None or n.kind not in ("stmt", "test"):
            continue
        for c in A.calls(n.ast):
            if isinstance(c.func, ast.Subscript) and K.self_attr(c.func.value):
                hcalls.append((n, c))
    rep.floor("R08.1", "handler invocation through the dispatch table", len(hcalls), 1)
    hnodes = {n.id for n, _ in hcalls}
    hc = Q.count_on_paths(g, g.entry, lambda n: n.id in hnodes, count_labels=("next", "true", "false", "exc"))
    worst = set()
    for ex in (g.exit, g.excexit):
        worst |= set(hc.get(ex.id, ()))
    okh = max(worst or {0}) <= 1 and len(hcalls) == 1 and not A.in_loop(hcalls[0][1], fn)
    rep.ob("R08.1", "_dispatch_request: the handler is invoked at most once", okh,
           "one invocation site, not in a loop, at most once on every path" if okh else
           "the request handler can run more than once for one request (counts %s, %d site(s))"
           % (sorted(worst), len(hcalls)), ctx.loc(hcalls[0][1]))
    exc_entries = [n for n in g.live if n.kind == "except"]
    after_exc = Q.reach(exc_entries) if exc_entries else set()
    for n, c, kind, seqe, pay in send_sites:
        if kind == MSG_REPLY:
            okr = n not in after_exc
            rep.ob("R08.1", "_dispatch_request: MSG_REPLY only on the no-exception continuation", okr,
                   "the reply send is not reachable from any exception handler" if okr else
                   "a MSG_REPLY can be sent after the handler raised (in addition to / instead of the exception)",
                   ctx.loc(c))
            # the payload derives from the handler's result
            okp = False
            if pay is not None:
                names = A.names_loaded(pay)
                for v in names:
                    for d in (rd.at(n, v) if not isinstance(pay, ast.Name) or True else ()):
                        if d != "param" and d.id in hnodes:
                            okp = True
                # payload defined at the encode node (fixed shape): look one level back
                if not okp:
                    for dn in g.live:
                        if dn.ast is not None and A.find_calls(dn.ast, "brine.dump") and dn.id not in send_nodes:
                            for v in A.names_loaded(dn.ast):
                                for d in rd.at(dn, v):
                                    if d != "param" and d.id in hnodes:
                                        okp = True
                            # folded form: the handler invocation is written inside the encode expression itself
                            if dn.id in hnodes and any(
                                    A.contains(bc, hc_) for bc in A.find_calls(dn.ast, "self._box") for _, hc_ in hcalls):
                                okp = True
            rep.ob("R08.1", "_dispatch_request: the reply carries the handler's result", okp,
                   "the value boxed into MSG_REPLY is the reaching definition from the handler call" if okp else
                   "the MSG_REPLY payload is not derived from the handler's return value", ctx.loc(c))
    # exceptional exits that send nothing must be the documented local-propagation re-raises
    dom = Q.dominators(g)
    for n in g.live:
        if not any(t is g.excexit or t.kind == "reraise" for t, l in n.succ if l == "exc"):
            continue
        if n.id in send_nodes or n.kind == "reraise":
            continue
        cnt = counts.get(n.id, frozenset())
        if cnt and min(cnt) >= 1:
            continue   # a response was already sent on every path reaching n
        if n.ast is None:
            continue
        if isinstance(n.ast, ast.Raise) and n.ast.exc is None:
            okx = propagate_guarded(g, n)
            rep.ob("R08.1", "_dispatch_request: unanswered exit `raise` is a configured local propagation", okx,
                   "every path from the handler entry to the bare raise takes the positive edge of a propagate_*_locally test"
                   if okx else
                   "a re-raise leaves the request unanswered without being guarded by a propagate_*_locally switch",
                   ctx.loc(n))
            if okx:
                ex = propagate_exact(g, n)
                if ex == "unknown":
                    rep.undecided("R08.1: cannot identify the exception-class test guarding the local re-raise in _dispatch_request")
                else:
                    rep.ob("R08.1", "_dispatch_request: the local propagation applies to exactly the configured exception class",
                           ex is None, "the re-raise is guarded by an identity test on SystemExit/KeyboardInterrupt itself" if ex is None
                           else "the re-raise is guarded by isinstance/issubclass: an exception rebuilt from a peer's MSG_EXCEPTION "
                                "(a generated subclass) is re-raised out of serve() instead of being answered", ctx.loc(n))
            continue
    # consumption of peer data (destructuring, unboxing, handler call) lies inside the catch-all try
    def raises_peer(node_ast, kind):
        if node_ast is not None and kind == "stmt":
            for c in A.calls(node_ast):
                if isinstance(c.func, ast.Subscript) and K.self_attr(c.func.value):
                    return {BaseException}      # user code may raise anything, incl. SystemExit
        return std_raises()(node_ast, kind)
    gp = ctx.cfg(f, raises=raises_peer)
    rdp = Q.ReachingDefs(gp)
    raw_param = prm[2]
    tainted = {raw_param}
    peer_nodes = []
    for n in sorted(gp.live, key=lambda x: x.lineno):
        if n.ast is None or n.kind not in ("stmt", "test") or n.kind == "except":
            continue
        if any(x.kind == "except" for x in Q.reach([n], backward=True) if x.kind == "except"):
            continue
        used = A.names_loaded(n.ast)
        if n.ast in [x.ast for x, *_ in send_sites]:
            continue
        if used & tainted:
            peer_nodes.append(n)
            tainted |= Q.node_defs(n)
    rep.floor("R08.1", "statements consuming peer-supplied request data", len(peer_nodes), 3)
    for n in peer_nodes:
        escapes = [t for t, l in n.succ if l == "exc" and t.kind != "except"]
        oke = not escapes
        rep.ob("R08.1", "_dispatch_request: failure of `%s` becomes an exception reply" % n.text()[:60], oke,
               "every exception this statement can raise (handler call: BaseException) is caught by the handler clause "
               "that sends MSG_EXCEPTION" if oke else
               "an exception raised here (malformed request / handler failure, incl. SystemExit/KeyboardInterrupt raised by "
               "the callee) is not caught by the replying handler clause: the requester gets no response", ctx.loc(n))

    # the replying handler clause itself must not depend on what the failed try body was computing: names bound in the try body
    # may be unbound (the destructuring failed) or peer-controlled (an unknown handler id) exactly when the clause runs
    for tr in [x for x in A.walk(fn) if isinstance(x, ast.Try)]:
        bound = set()
        for st_ in tr.body:
            bound |= A.names_stored(st_)
        for h_ in tr.handlers:
            sends_exc = [x for x in A.walk(h_) if isinstance(x, ast.Call) and (A.call_name(x) or "").startswith("self.")
                         and (A.call_name(x) or "")[5:] in senders and x.args and ctx.try_fold(x.args[0]) == MSG_EXC]
            if not sends_exc:
                continue
            uses = []
            for st_ in h_.body:
                for x in A.walk(st_):
                    if isinstance(x, ast.Name) and isinstance(x.ctx, ast.Load) and x.id in bound and x.id not in prm:
                        uses.append(x)
            rep.ob("R08.1", "_dispatch_request: the replying handler clause does not consume the failed request's data", not uses,
                   "the clause uses only the exception triple, the sequence number and the configuration" if not uses else
                   "the clause that must send the exception reply reads `%s`, which the failed try body was still computing: when the "
                   "failure is a malformed request (payload not a pair: the name is unbound; unknown handler id: the lookup fails "
                   "again) a second exception escapes, no response is sent and the connection is torn down"
                   % uses[0].id, ctx.loc(uses[0]) if uses else ctx.loc(h_), kind="site")

    # R08.2: encode failures of the reply
    enc_sites = []
    for n in g.live:
        if n.ast is None or n.kind not in ("stmt", "test"):
            continue
        is_enc = False
        for c in A.calls(n.ast):
            d = A.call_name(c) or ""
            if d == "brine.dump" or d == "self._box":
                is_enc = True
            if d.startswith("self.") and d[5:] in encoders:
                k, _, _ = msg_kind_of_send(ctx, g, rd, n, c)
                if k == MSG_REPLY:
                    is_enc = True
        if is_enc:
            enc_sites.append(n)
    rep.floor("R08.2", "reply-encode sites (boxing / brine.dump / encoding send) on the no-exception path",
              len(enc_sites), 1)
    for site in enc_sites:
        site_ast = site.ast

        def raises(node_ast, kind, _site=site_ast):
            if node_ast is _site:
                return set(ENC)
            if isinstance(node_ast, ast.Raise):
                return None
            return set()       # only the fate of the encode failure is followed here
        g2 = ctx.cfg(f, raises=raises)
        s2 = [n for n in g2.live if n.ast is site_ast and n.kind == site.kind][0]
        exc_sends = [n for n in g2.live if n.ast is not None and n.kind == "stmt" and any(
            (A.call_name(c) or "").startswith("self.") and (A.call_name(c) or "")[5:] in senders
            and ctx.try_fold(c.args[0]) == MSG_EXC for c in A.calls(n.ast) if c.args)]
        starts = [t for t, l in s2.succ if l == "exc"]
        bad = None
        dom2 = Q.dominators(g2)
        exempt = [n for n in g2.live if isinstance(n.ast, ast.Raise) and n.ast.exc is None and propagate_guarded(g2, n)]
        for st in starts:
            if st is g2.excexit:
                bad = [s2, st]
                break
            p = Q.find_path(st, [g2.exit, g2.excexit], avoid=exc_sends + exempt, skip_first=False)
            if p:
                bad = [s2] + p
                break
        rep.ob("R08.2", "_dispatch_request: encode failure at `%s` still answers" % A.norm(site_ast)[:70], bad is None,
               "an encode failure of the reply is caught and answered with one MSG_EXCEPTION for the same seq"
               if bad is None else
               "a handler result that cannot be boxed/encoded (TypeError/ValueError from brine.dump) escapes "
               "_dispatch_request unanswered: the exception leaves serve() and the connection is torn down",
               ctx.loc(site), witness=ctx.path(bad) if bad else None)

    # ------------------------------------------------------------------ R08.3 routing (partial evaluation by message kind)
    dm = K.dispatch_model(ctx)
    fd, gd = dm.f, dm.g
    rep.analysed(fd, gd)
    load_nodes = [n for n in gd.live if n.ast is not None and n.kind == "stmt" and A.find_calls(n.ast, "brine.load")]
    rep.floor("R08.3", "decode site (brine.load) in _dispatch", len(load_nodes), 1)
    ln = load_nodes[0]
    if len(dm.names) != 3:
        raise AnalysisError("_dispatch no longer destructures brine.load(data) into three names")
    v_msg, v_seq, v_args = dm.names
    routed = 0
    for kname, want_flag, want_dec in (("MSG_REPLY", False, "value"), ("MSG_EXCEPTION", True, "exc")):
        ok_e = dm.edge_ok(kname)
        rdd = Q.ReachingDefs(gd, edge_ok=ok_e)
        calls = []
        for n in dm.nodes(kname):
            if n.ast is not None and n.kind == "stmt":
                for c in A.find_calls(n.ast, "self._seq_request_callback"):
                    calls.append((n, c))
        cnt = Q.count_on_paths(gd, gd.entry, lambda x: any(x is n for n, _ in calls), edge_ok=ok_e)
        at = cnt.get(gd.exit.id, frozenset())
        rep.ob("R08.3", "_dispatch: a %s is handed to the callback lookup exactly once" % kname, at == frozenset([1]),
               "one _seq_request_callback call on every path taken for this kind" if at == frozenset([1]) else
               "a %s is routed %s times" % (kname, sorted(at)), fd.loc)
        for n, c in calls:
            routed += 1
            okq = len(c.args) >= 4 and isinstance(c.args[1], ast.Name) and c.args[1].id == v_seq and rdd.at(n, v_seq) == {ln}
            rep.ob("R08.3", "_dispatch: %s routed by the received seq" % kname, okq,
                   "the sequence number handed to the callback lookup is the one decoded from the packet" if okq else
                   "the response is routed with something other than its own decoded sequence number", ctx.loc(c))
            # flag: constant, or a local whose definitions under this kind are that constant

            def const_under(e):
                v = ctx.try_fold(e)
                if isinstance(e, ast.Constant):
                    return {e.value}
                if isinstance(e, ast.Name):
                    out = set()
                    for d in rdd.at(n, e.id):
                        if d == "param" or not isinstance(d.ast, ast.Assign):
                            return {"?"}
                        val = d.ast.value
                        tgt = d.ast.targets[0]
                        if isinstance(tgt, ast.Tuple) and isinstance(val, ast.Tuple) and len(tgt.elts) == len(val.elts):
                            for te, ve in zip(tgt.elts, val.elts):
                                if isinstance(te, ast.Name) and te.id == e.id:
                                    val = ve
                        out.add(val.value if isinstance(val, ast.Constant) else "?")
                    return out
                return {"?"}

            def decoder_under(e):
                if isinstance(e, ast.Call):
                    return {"exc" if A.find_calls(e, "self._unbox_exc") else ("value" if A.find_calls(e, "self._unbox") else "?")}
                if isinstance(e, ast.Name):
                    out = set()
                    for d in rdd.at(n, e.id):
                        if d == "param":
                            return {"?"}
                        out.add("exc" if A.find_calls(d.ast, "self._unbox_exc") else
                                ("value" if A.find_calls(d.ast, "self._unbox") else "?"))
                    return out
                return {"?"}
            flag = const_under(c.args[2]) if len(c.args) >= 3 else {"?"}
            dec = decoder_under(c.args[3]) if len(c.args) >= 4 else {"?"}
            obj_ok = flag == {want_flag} and dec == {want_dec}
            rep.ob("R08.3", "_dispatch: %s delivered with the matching flag and decoder" % kname, obj_ok,
                   "MSG_REPLY -> (is_exc=False, _unbox); MSG_EXCEPTION -> (is_exc=True, _unbox_exc)" if obj_ok else
                   "message kind %s is delivered with is_exc=%s decoded by %s" % (kname, sorted(map(str, flag)), sorted(dec)),
                   ctx.loc(c), kind="table")
    rep.floor("R08.3", "response routing calls in _dispatch", routed, 2)
    okreq = False
    rdq = Q.ReachingDefs(gd, edge_ok=dm.edge_ok("MSG_REQUEST"))
    for n in dm.nodes("MSG_REQUEST"):
        if n.ast is not None and n.kind == "stmt":
            for c in A.find_calls(n.ast, "self._dispatch_request"):
                okreq = len(c.args) == 2 and all(isinstance(a, ast.Name) for a in c.args) \
                    and c.args[0].id == v_seq and c.args[1].id == v_args and rdq.at(n, v_seq) == {ln}
    rep.ob("R08.3", "_dispatch: request handed to _dispatch_request with its own seq", okreq,
           "(seq, args) forwarded unchanged" if okreq else "a request is not forwarded with its own (seq, args)", fd.loc)
    # ... on every path: no test in _dispatch decides whether a received request is executed (sequence numbers of different
    # threads of the peer may arrive out of order; a "stale" request is still a request that must be answered)
    req_nodes = {n.id for n in dm.nodes("MSG_REQUEST") if n.ast is not None and n.kind in ("stmt", "test") and
                 A.find_calls(n.ast, "self._dispatch_request")}
    ok_q = dm.edge_ok("MSG_REQUEST")
    skip_q = Q.find_path_ef([gd.entry], lambda x: x is gd.exit, lambda a, b, l: ok_q(a, b, l) and b.id not in req_nodes) \
        if req_nodes else [gd.entry]
    rep.ob("R08.3", "_dispatch: every received request reaches _dispatch_request", skip_q is None,
           "no path for a MSG_REQUEST leaves _dispatch without dispatching it" if skip_q is None else
           "a received request can be dropped without being executed or answered (the requester waits for its timeout)",
           fd.loc, witness=ctx.path(skip_q) if skip_q else None)
    no_resp_on_req = not any(A.find_calls(n.ast, "self._seq_request_callback") for n in dm.nodes("MSG_REQUEST")
                             if n.ast is not None and n.kind == "stmt")
    okother = not dm.returns("<other>") and bool(dm.raises("<other>")) and gd.exit not in dm.nodes("<other>")
    rep.ob("R08.3", "_dispatch: unknown message kinds raise", okother and no_resp_on_req,
           "for a kind outside the three published ones only a raise is reachable" if okother else
           "unknown message kinds are silently accepted", fd.loc)

    fc = ctx.func(K.CONN + "._seq_request_callback")
    gc = ctx.cfg(fc)
    rep.analysed(fc, gc)
    pc = A.params(fc.node)
    pops = [c for c in A.calls(fc.node) if isinstance(c.func, ast.Attribute) and c.func.attr == "pop"
            and K.self_attr(c.func.value)]
    table = K.one([K.self_attr(c.func.value) for c in pops], "callback table popped in _seq_request_callback") \
        if pops else None
    okpop = len(pops) == 1 and pops[0].args and isinstance(pops[0].args[0], ast.Name) and "seq" in pc \
        and pops[0].args[0].id == "seq"
    rep.ob("R08.3", "_seq_request_callback: lookup+removal is one dict.pop(seq)", bool(okpop),
           "single self.%s.pop(seq, ...)" % table if okpop else
           "the callback is not looked up and removed with one atomic pop of the response's own seq "
           "(%d pop site(s))" % len(pops), fc.loc)
    other_access = [n for n in A.walk(fc.node) if isinstance(n, ast.Subscript) and K.self_attr(n.value) == table] \
        if table else []
    rep.ob("R08.3", "_seq_request_callback: no other access to the callback table", not other_access,
           "the table is only touched by the pop" if not other_access else
           "check-then-act on the callback table (subscript access besides pop)", fc.loc, kind="site")
    if table:
        # package-wide: nobody else runs the callbacks of the table. A callback that is invoked while its entry is still in the
        # table (a loop over .values() in the close path, a peek with [] or .get()) can be invoked again by the dispatching
        # thread that pops the same entry: the request completes twice, the second outcome overwrites the first
        runners = []
        for m_ in ctx.cls(K.CONN).methods.values():
            if m_ is fc:
                continue
            tainted = set()
            for n_ in A.walk(m_.node):
                src_ = None
                if isinstance(n_, ast.For):
                    src_, tgt_ = n_.iter, n_.target
                elif isinstance(n_, ast.Assign) and len(n_.targets) == 1:
                    src_, tgt_ = n_.value, n_.targets[0]
                elif isinstance(n_, ast.comprehension):
                    src_, tgt_ = n_.iter, n_.target
                if src_ is None:
                    continue
                reads = [x for x in A.walk(src_) if K.self_attr(x, table)]
                removing = any(isinstance(c_.func, ast.Attribute) and c_.func.attr in ("pop", "popitem") and
                               K.self_attr(c_.func.value, table) for c_ in A.calls(src_))
                if reads and not removing:
                    tainted |= {x.id for x in A.walk(tgt_) if isinstance(x, ast.Name)}
            for c_ in A.calls(m_.node):
                if isinstance(c_.func, ast.Name) and c_.func.id in tainted:
                    runners.append((c_, m_))
                if isinstance(c_.func, ast.Subscript) and K.self_attr(c_.func.value, table):
                    runners.append((c_, m_))
        rep.ob("R08.3", "package: a pending request's callback runs only after it was removed from the table (one atomic pop)",
               not runners, "no method invokes a callback it merely read from self.%s" % table if not runners else
               "%s calls `%s` on entries that are still registered: a reply dispatched concurrently pops and completes the same "
               "request again (two outcomes for one request)" % (runners[0][1].name, A.src(runners[0][0])[:60]),
               ctx.loc(runners[0][0]) if runners else fc.loc, kind="site")
    if okpop:
        pop_stmt = A.enclosing(pops[0], ast.stmt)
        cbvar = pop_stmt.targets[0].id if isinstance(pop_stmt, ast.Assign) and isinstance(pop_stmt.targets[0], ast.Name) else None
        cb_calls = [n for n in gc.live if n.ast is not None and n.kind == "stmt" and cbvar and any(
            isinstance(c.func, ast.Name) and c.func.id == cbvar for c in A.calls(n.ast))]
        ids = {n.id for n in cb_calls}
        cc = Q.count_on_paths(gc, gc.entry, lambda n: n.id in ids)
        at = cc.get(gc.exit.id, frozenset())
        okc = bool(cb_calls) and max(at or {0}) == 1
        # arguments: (is_exc, obj) parameters unchanged
        argok = all(len(c.args) == 2 and [getattr(a, "id", None) for a in c.args] == pc[3:5]
                    for n in cb_calls for c in A.calls(n.ast) if isinstance(c.func, ast.Name) and c.func.id == cbvar)
        dm = _delivery_model(ctx)
        if dm is not None:
            # decided by evaluation of _dispatch on a reply / an exception / an unknown sequence number
            rep.ob("R08.3", "_dispatch: a reply runs the callback registered under its seq exactly once with (False, value), an "
                   "exception reply with (True, exception); the entry is removed; an unknown seq runs nothing", not dm,
                   "4 messages evaluated" if not dm else "; ".join(dm)[:400], fc.loc, kind="model")
            if not dm:
                argok = okc = True        # (the structural reading only corroborates)
        rep.ob("R08.3", "_seq_request_callback: only the popped callback runs, at most once, with (is_exc, obj)",
               okc and argok,
               "the popped callback is called once with the unmodified (is_exc, obj)" if okc and argok else
               "callback invocation counts %s / arguments altered" % sorted(at), fc.loc)

    # ------------------------------------------------------------------ R08.4
    fa = ctx.func(K.CONN + "._async_request")
    ga = ctx.cfg(fa)
    rep.analysed(fa, ga)
    rda = Q.ReachingDefs(ga)
    conn_cls = ctx.cls(K.CONN)

    def seq_alloc(node_ast):
        """(allocator function, next() call) when the statement draws a number: `next(self.<counter>)` written here or inside
        the one-line method of the connection it calls (`self._get_seq_id()`)"""
        for c_ in A.calls(node_ast):
            if A.call_name(c_) == "next" and c_.args and K.self_attr(c_.args[0]):
                return fa, c_
            d_ = A.call_name(c_) or ""
            if d_.startswith("self.") and d_[5:] in conn_cls.methods and not c_.args and not c_.keywords:
                m_ = conn_cls.methods[d_[5:]]
                nx_ = [x for x in A.find_calls(m_.node, "next") if x.args and K.self_attr(x.args[0])]
                if nx_:
                    return m_, nx_[0]
        return None
    seq_defs = [n for n in ga.live if n.kind == "stmt" and isinstance(n.ast, ast.Assign) and seq_alloc(n.ast)]
    rep.floor("R08.4", "sequence allocation in _async_request", len(seq_defs), 1)
    if not seq_defs:
        raise AnalysisError("_async_request no longer draws its sequence number from a counter with next()")
    seqv = seq_defs[0].ast.targets[0].id if isinstance(seq_defs[0].ast.targets[0], ast.Name) else None
    reg = [n for n in ga.live if n.kind == "stmt" and isinstance(n.ast, ast.Assign) and any(
        isinstance(t, ast.Subscript) and K.self_attr(t.value) and isinstance(t.slice, ast.Name) and t.slice.id == seqv
        for t in n.ast.targets)]
    snd = [n for n in ga.live if n.kind == "stmt" and n.ast is not None and any(
        (A.call_name(c) or "")[5:] in senders for c in A.calls(n.ast) if (A.call_name(c) or "").startswith("self."))]
    rep.floor("R08.4", "request send sites in _async_request", len(snd), 1)
    doma = Q.dominators(ga)
    for s in snd:
        okd = any(r.id in doma[s.id] for r in reg) and len(seq_defs) == 1
        rep.ob("R08.4", "_async_request: callback registered under the fresh seq before the request is sent", okd,
               "the store self.<table>[seq] = callback dominates the send" if okd else
               "the request can be transmitted before its callback is registered (a fast reply is dropped)", ctx.loc(s))
        for c in A.calls(s.ast):
            d = A.call_name(c) or ""
            if d.startswith("self.") and d[5:] in senders and len(c.args) >= 3:
                kind = ctx.try_fold(c.args[0])
                oks = kind == MSG_REQUEST and isinstance(c.args[1], ast.Name) and c.args[1].id == seqv \
                    and rda.at(s, seqv) == {seq_defs[0]}
                rep.ob("R08.4", "_async_request: the request is sent as MSG_REQUEST under the registered seq", oks,
                       "kind folds to MSG_REQUEST and the seq slot is the registered number" if oks else
                       "request sent with kind %r / a different sequence number than the one registered" % (kind,),
                       ctx.loc(c))
        # failure unregisters
        pops_a = [n for n in ga.live if n.kind == "stmt" and n.ast is not None and any(
            isinstance(c.func, ast.Attribute) and c.func.attr == "pop" and K.self_attr(c.func.value)
            and c.args and isinstance(c.args[0], ast.Name) and c.args[0].id == seqv for c in A.calls(n.ast))]
        starts = [t for t, l in s.succ if l == "exc"]
        bad = None
        for st in starts:
            if st is ga.excexit:
                bad = [s, st]
                break
            p = Q.find_path(st, [ga.excexit], avoid=pops_a, skip_first=False)
            if p:
                bad = [s] + p
                break
        rep.ob("R08.4", "_async_request: a failed send unregisters the callback before re-raising", bad is None,
               "every exceptional path out of the send pops the same key" if bad is None else
               "a send failure leaves a stale callback registered", ctx.loc(s), witness=ctx.path(bad) if bad else None)

    # ------------------------------------------------------------------ R08.5
    fs, nx0 = seq_alloc(seq_defs[0].ast)
    fld = K.self_attr(nx0.args[0])
    if fs is fa:
        # drawn in _async_request itself: the number is the value of the next() call, stored once
        ok5 = len(seq_defs) == 1 and seq_defs[0].ast.value is nx0 and len(A.find_calls(fa.node, "next")) == 1
    else:
        rets = [n for n in A.walk(fs.node) if isinstance(n, ast.Return)]
        nexts = A.find_calls(fs.node, "next")
        stores = [n for n in A.walk(fs.node) if isinstance(n, (ast.Assign, ast.AugAssign))]
        ok5 = len(rets) == 1 and len(nexts) == 1 and not stores and rets[0].value is nexts[0] and len(seq_defs) == 1
    rep.ob("R08.5", "the sequence number is a single next() on the per-connection counter", ok5,
           "returns next(self.%s) and nothing else" % fld if ok5 else
           "sequence numbers are not produced by one atomic next() on a counter (read-modify-write or several steps)",
           fs.loc)
    if fld:
        ctor = K.init_field_ctor(ctx, K.CONN, fld)
        okc = isinstance(ctor, ast.Call) and (A.call_name(ctor) or "").endswith("count")
        rep.ob("R08.5", "Connection.__init__: the counter is a fresh itertools.count per connection", bool(okc),
               "self.%s = %s" % (fld, A.src(ctor)) if okc else "the sequence counter is not an itertools.count created in __init__",
               ctx.loc(ctor) if ctor is not None else fs.loc, kind="site")
        writers = []
        for m in ctx.repo.modules.values():
            for n in ast.walk(m.tree):
                if isinstance(n, ast.Attribute) and n.attr == fld and isinstance(n.ctx, (ast.Store, ast.Del)):
                    fq = getattr(A.enclosing(n, ast.FunctionDef), "_func", None)
                    if fq is None or fq.name != "__init__":
                        writers.append(n)
        rep.ob("R08.5", "package: nobody resets the sequence counter", not writers,
               "the counter field is only bound in __init__" if not writers else
               "the sequence counter is re-bound at %s (numbers can repeat)" % ", ".join(ctx.loc(w) for w in writers),
               ctx.loc(writers[0]) if writers else fs.loc, kind="site")
        rep.floor("R08.5", "places that draw a sequence number", len(seq_defs), 1)

    # ------------------------------------------------------------------ R08.6
    K.share(ctx, rep, "c12", lambda o: o.rule in ("R12.1", "R12.2", "R12.3", "R12.5", "R12.6", "R12.7"), "R08.6", floor=8)
    K.share(ctx, rep, "c16", lambda o: o.rule == "R16.8", "R08.6", floor=1)
    K.share(ctx, rep, "c05", lambda o: o.rule in ("R05.4", "R05.8"), "R08.7", floor=3)     # (a response frame is read back as sent)     # (a reply is not cut off by an inherited OS time-out)
    K.share(ctx, rep, "c09", lambda o: o.rule in ("R09.4", "R09.5"), "R08.7", floor=6)
    K.connection_state(ctx, rep, "R08.8", ["_request_callbacks", "_seqcounter"])
    K.share(ctx, rep, "c01", lambda o: o.rule == "R01.2" and "exactly once" in o.key, "R08.9", floor=1)
    K.share(ctx, rep, "c01", lambda o: o.rule == "R01.4" and "callback registered for the request" in o.key, "R08.8", floor=1)
    from . import hygiene as H
    H.private_state(ctx, rep, "R08.10", "rpyc.core.async_.AsyncResult")
    K.share(ctx, rep, "c15", lambda o: o.rule in ("R15.1", "R15.5", "R15.6") or (o.rule == "R15.4" and "AsyncResult.wait" in o.key), "R08.11", floor=3)
    # a message that was encoded by a conforming peer decodes: writer/reader agreement of the value codec (a decode failure in
    # _dispatch happens before any request/reply handling - the message is neither executed nor answered)
    K.share(ctx, rep, "c04", lambda o: o.rule in ("R04.3", "R04.6") or (o.rule == "R04.2" and "output buffer" in o.key), "R08.7", floor=20)


def _delivery_model(ctx):
    """deviations of Connection._dispatch on response messages (list), or None when it cannot be interpreted"""
    from .. import miniinterp as MI
    conn = ctx.cls(K.CONN)
    fd = conn.methods["_dispatch"]
    MSG_REPLY = ctx.const("rpyc.core.consts", "MSG_REPLY")
    MSG_EXC = ctx.const("rpyc.core.consts", "MSG_EXCEPTION")
    meths = {n_: m_.node for n_, m_ in conn.methods.items() if n_ not in ("_unbox", "_unbox_exc", "_dispatch_request")}
    bad = []
    try:
        for label, msg, seq, registered, want in (
                ("a reply", MSG_REPLY, 7, True, [(False, ("unboxed", "PAYLOAD"))]),
                ("an exception reply", MSG_EXC, 7, True, [(True, ("exception", "PAYLOAD"))]),
                ("a reply with sequence number 0", MSG_REPLY, 0, True, [(False, ("unboxed", "PAYLOAD"))]),
                ("a reply nobody waits for", MSG_REPLY, 9, False, [])):
            calls, other, still = [], [], []
            table = {5: (lambda *a: other.append(a))}
            if registered:
                table[seq] = lambda *a, seq=seq: (still.append(seq in table), calls.append(a))[1]
            hooks = {"brine.load": lambda data: (msg, seq, "PAYLOAD"), "self._unbox": lambda x: ("unboxed", x),
                     "self._unbox_exc": lambda x: ("exception", x)}
            for lv in ("debug", "info", "warning", "warn", "error"):
                hooks["self._config['logger'].%s" % lv] = lambda *a, **k: None
            class _NS:
                mi_native = True
            cns = _NS()
            cm_ = ctx.module("rpyc.core.consts")
            for nm_ in cm_.toplevel:
                try:
                    setattr(cns, nm_, ctx.const("rpyc.core.consts", nm_))
                except Exception:
                    pass
            extra = {"__calls__": hooks, "__methods__": meths, "__max_iter__": 200, "__globals__": {"consts": cns}}
            extra["__global_lookup__"] = K.module_function_lookup(ctx, fd.module, extra, skip=("brine", "consts"))
            state = {"_request_callbacks": table, "_config": {"logger": None}, "_closed": False}
            try:
                MI.call_method(fd.node, state, ["DATA"], extra)
                out = None
            except MI.Raised as r_:
                out = r_.name
            if any(still):
                bad.append("%s: the callback runs while its entry is still registered (looked up, run, removed afterwards): a reply "
                           "dispatched concurrently - or a re-entrant serve inside the callback - completes the same request again" % label)
            if out or calls != want or other or (registered and seq in table) or 5 not in table:
                bad.append("%s: callback calls %r%s%s%s (expected %r, entry removed)" % (
                    label, calls, ", raises %s" % out if out else "", ", another request's callback was run" if other else "",
                    ", the entry stays registered" if registered and seq in table else "", want))
    except (AnalysisError, KeyError):
        return None
    return bad

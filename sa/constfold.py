"""Safe constant evaluator over the AST (no eval/exec of repository code).

Supports exactly the fragment the package uses for its tables:
literals, tuples/lists/sets/dicts, bytes/str/int arithmetic, dict(k=v), set([...]), frozenset([...]),
`a | b` on sets, Struct("fmt"), BYTES_LITERAL("..."), bytes([expr]), type(None)/type(u"")...,
builtin type names, generator/dict comprehensions over range(c1, c2), names resolved through the
module's top-level single assignments and `from x import y`.
Anything else raises Unfoldable (callers fail closed)."""
import ast
import struct

from . import astutil as A


class Unfoldable(Exception):
    pass


class StructVal:
    def __init__(self, fmt):
        self.format = fmt
        self.size = struct.calcsize(fmt)

    def __eq__(self, o):
        return isinstance(o, StructVal) and o.format == self.format

    def __hash__(self):
        return hash(("StructVal", self.format))

    def __repr__(self):
        return "Struct(%r)" % self.format


BUILTIN_TYPES = {
    "int": int, "bool": bool, "float": float, "complex": complex, "str": str, "bytes": bytes,
    "tuple": tuple, "frozenset": frozenset, "slice": slice, "list": list, "dict": dict, "set": set,
    "object": object, "type": type, "bytearray": bytearray,
}
BUILTIN_VALUES = {"None": None, "True": True, "False": False, "NotImplemented": NotImplemented,
                  "Ellipsis": Ellipsis}

_BINOPS = {
    ast.Add: lambda a, b: a + b, ast.Sub: lambda a, b: a - b, ast.Mult: lambda a, b: a * b,
    ast.BitOr: lambda a, b: a | b, ast.BitAnd: lambda a, b: a & b, ast.Mod: lambda a, b: a % b,
    ast.FloorDiv: lambda a, b: a // b, ast.LShift: lambda a, b: a << b, ast.Pow: lambda a, b: a ** b,
}
_SAFE = (int, float, complex, str, bytes, bool, tuple, frozenset, list, set, dict, type(None),
         type(Ellipsis), type(NotImplemented), StructVal, type)


class Folder:
    def __init__(self, repo):
        self.repo = repo
        self._cache = {}
        self._busy = set()

    # -------------------------------------------------------------- public
    def module_value(self, modname, name):
        key = (modname, name)
        if key in self._cache:
            return self._cache[key]
        if key in self._busy:
            raise Unfoldable("cyclic definition of %s.%s" % key)
        mod = self.repo.modules.get(modname)
        if mod is None:
            raise Unfoldable("unknown module %s" % modname)
        self._busy.add(key)
        try:
            if name in mod.toplevel:
                exprs = mod.toplevel[name]
                vals = []
                for e in exprs:
                    vals.append(self.fold(e, mod))
                # multiple assignments (compat switches) must agree, else unfoldable
                v = vals[0]
                for w in vals[1:]:
                    if not _same(v, w):
                        raise Unfoldable("%s.%s assigned different constants" % key)
            elif name in mod.imports:
                tgt = mod.imports[name]
                tm, _, tn = tgt.rpartition(".")
                if tgt in self.repo.modules:
                    raise Unfoldable("%s is a module" % tgt)
                v = self._import_value(tm, tn)
            else:
                raise Unfoldable("%s.%s is not a top-level constant" % key)
        finally:
            self._busy.discard(key)
        self._cache[key] = v
        return v

    def _import_value(self, modname, name):
        if modname in self.repo.modules:
            m = self.repo.modules[modname]
            # functions standing for known pure helpers
            if name == "BYTES_LITERAL" or name == "Struct":
                return _Helper(name)
            return self.module_value(modname, name)
        if modname == "struct" and name == "Struct":
            return _Helper("Struct")
        raise Unfoldable("external name %s.%s" % (modname, name))

    def fold(self, node, mod, env=None):
        v = self._fold(node, mod, env or {})
        return v

    # -------------------------------------------------------------- core
    def _fold(self, n, mod, env):
        if isinstance(n, ast.Constant):
            return n.value
        if isinstance(n, ast.Name):
            if n.id in env:
                return env[n.id]
            if n.id in mod.toplevel or n.id in mod.imports or (mod.name, n.id) in self._cache:
                return self.module_value(mod.name, n.id)      # (the cache also holds synthetic tables, see brine_model)
            if n.id in BUILTIN_VALUES:
                return BUILTIN_VALUES[n.id]
            if n.id in BUILTIN_TYPES:
                return BUILTIN_TYPES[n.id]
            raise Unfoldable("name %s" % n.id)
        if isinstance(n, ast.Attribute):
            d = A.dotted(n)
            if d:
                r = self.repo.resolve_name(mod, d)
                if r and r[0] == "value" and "." not in r[2]:
                    return self.module_value(r[1].name, r[2])
                # class attribute, e.g. Channel.FRAME_HEADER / self.FRAME_HEADER handled by callers
                # errno.<NAME>: platform constants of the standard library (read from this interpreter's errno table)
                hd = d.split(".")
                if len(hd) == 2 and mod.imports.get(hd[0]) == "errno" and hd[0] not in env:
                    import errno as _errno
                    if isinstance(getattr(_errno, hd[1], None), int):
                        return getattr(_errno, hd[1])
            base = self._fold(n.value, mod, env)
            if isinstance(base, StructVal) and n.attr in ("size", "format"):
                return getattr(base, n.attr)
            raise Unfoldable("attribute %s" % A.src(n))
        if isinstance(n, ast.Tuple):
            return tuple(self._fold(e, mod, env) for e in n.elts)
        if isinstance(n, ast.List):
            return [self._fold(e, mod, env) for e in n.elts]
        if isinstance(n, ast.Set):
            return set(self._fold(e, mod, env) for e in n.elts)
        if isinstance(n, ast.Dict):
            if any(k is None for k in n.keys):
                raise Unfoldable("dict unpacking")
            return {self._fold(k, mod, env): self._fold(v, mod, env) for k, v in zip(n.keys, n.values)}
        if isinstance(n, ast.UnaryOp):
            v = self._fold(n.operand, mod, env)
            if isinstance(n.op, ast.USub):
                return -v
            if isinstance(n.op, ast.Not):
                return not v
            if isinstance(n.op, ast.UAdd):
                return +v
            raise Unfoldable("unary")
        if isinstance(n, ast.BinOp):
            f = _BINOPS.get(type(n.op))
            if f is None:
                raise Unfoldable("binop")
            a, b = self._fold(n.left, mod, env), self._fold(n.right, mod, env)
            if not isinstance(a, _SAFE) or not isinstance(b, _SAFE):
                raise Unfoldable("binop operands")
            if isinstance(n.op, ast.Pow) and (not isinstance(b, int) or abs(b) > 64):
                raise Unfoldable("pow")
            if isinstance(n.op, ast.Mult) and isinstance(a, (str, bytes, list, tuple)) and isinstance(b, int) and b > 4096:
                raise Unfoldable("big repeat")
            try:
                return f(a, b)
            except Exception as e:
                raise Unfoldable("binop failed: %s" % e)
        if isinstance(n, ast.Compare) and len(n.ops) == 1:
            a, b = self._fold(n.left, mod, env), self._fold(n.comparators[0], mod, env)
            op = n.ops[0]
            try:
                if isinstance(op, ast.Eq):
                    return a == b
                if isinstance(op, ast.NotEq):
                    return a != b
                if isinstance(op, ast.Lt):
                    return a < b
                if isinstance(op, ast.LtE):
                    return a <= b
                if isinstance(op, ast.Gt):
                    return a > b
                if isinstance(op, ast.GtE):
                    return a >= b
                if isinstance(op, ast.In):
                    return a in b
                if isinstance(op, ast.NotIn):
                    return a not in b
            except Exception as e:
                raise Unfoldable("compare failed: %s" % e)
            raise Unfoldable("compare")
        if isinstance(n, ast.Call):
            return self._call(n, mod, env)
        if isinstance(n, (ast.GeneratorExp, ast.ListComp, ast.SetComp)):
            items = list(self._comp(n.generators, mod, env, lambda e: self._fold(n.elt, mod, e)))
            if isinstance(n, ast.SetComp):
                return set(items)
            return items
        if isinstance(n, ast.DictComp):
            pairs = list(self._comp(n.generators, mod, env,
                                    lambda e: (self._fold(n.key, mod, e), self._fold(n.value, mod, e))))
            return dict(pairs)
        if isinstance(n, ast.Subscript):
            base = self._fold(n.value, mod, env)
            idx = self._fold(n.slice, mod, env)
            try:
                return base[idx]
            except Exception as e:
                raise Unfoldable("subscript failed: %s" % e)
        raise Unfoldable(type(n).__name__)

    def _comp(self, gens, mod, env, leaf):
        if not gens:
            yield leaf(env)
            return
        g = gens[0]
        it = self._fold(g.iter, mod, env)
        if not isinstance(it, (range, list, tuple, set, frozenset, dict, _DictItems)):
            raise Unfoldable("comprehension source")
        seq = list(it)
        if len(seq) > 100000:
            raise Unfoldable("comprehension too large")
        for item in seq:
            e = dict(env)
            self._bind(g.target, item, e)
            ok = True
            for cond in g.ifs:
                if not self._fold(cond, mod, e):
                    ok = False
                    break
            if ok:
                yield from self._comp(gens[1:], mod, e, leaf)

    def _bind(self, target, value, env):
        if isinstance(target, ast.Name):
            env[target.id] = value
        elif isinstance(target, (ast.Tuple, ast.List)):
            vals = list(value)
            if len(vals) != len(target.elts):
                raise Unfoldable("unpack")
            for t, v in zip(target.elts, vals):
                self._bind(t, v, env)
        else:
            raise Unfoldable("bind target")

    def _call(self, n, mod, env):
        fn = A.dotted(n.func)
        args = n.args
        if any(isinstance(a, ast.Starred) for a in args) or any(k.arg is None for k in n.keywords):
            raise Unfoldable("star call")
        # method calls on folded values: .items()
        if isinstance(n.func, ast.Attribute) and n.func.attr in ("items", "keys", "values") and not args:
            base = self._fold(n.func.value, mod, env)
            if isinstance(base, dict):
                if n.func.attr == "items":
                    return _DictItems(list(base.items()))
                if n.func.attr == "keys":
                    return list(base.keys())
                return list(base.values())
            raise Unfoldable("items() on non-dict")
        callee = None
        if fn == "dir" and "dir" not in env and len(args) == 1 and not n.keywords:
            # dir(<class of the package>): names bound in the class bodies along the MRO plus what every object has
            d_ = A.dotted(args[0])
            c_ = self.repo.resolve_class(mod, d_) if d_ else None
            if c_ is None:
                raise Unfoldable("dir() of something that is not a class of the package")
            names = set(_OBJECT_DIR) | {"__dict__", "__module__", "__weakref__"}
            for k_ in self.repo.mro(c_):
                for st in k_.node.body:
                    if isinstance(st, (ast.FunctionDef, ast.ClassDef)):
                        names.add(st.name)
                    elif isinstance(st, (ast.Assign, ast.AnnAssign)):
                        for t_ in (st.targets if isinstance(st, ast.Assign) else [st.target]):
                            names |= {x.id for x in ast.walk(t_) if isinstance(x, ast.Name)}
                        if isinstance(st, ast.Assign) and any(isinstance(t_, ast.Name) and t_.id == "__slots__" for t_ in st.targets):
                            try:
                                names |= set(self._fold(st.value, k_.module, {}))
                            except Unfoldable:
                                pass
            return sorted(names)
        if fn is not None:
            if fn in env:
                callee = env[fn]
            elif fn in ("Struct", "BYTES_LITERAL") or fn.endswith(".Struct"):
                # resolve through imports when present; the compat module re-exports struct.Struct
                callee = _Helper("Struct" if fn.endswith("Struct") else "BYTES_LITERAL")
            elif fn in ("dict", "set", "frozenset", "tuple", "list", "range", "type", "bytes", "len", "str",
                        "int", "sorted", "min", "max", "zip", "enumerate", "reversed"):
                callee = _Helper(fn)
            elif fn == "map" and len(args) >= 2 and isinstance(args[0], ast.Name) and args[0].id in (
                    "bytes", "str", "int", "tuple", "list", "len", "frozenset") and not n.keywords:
                # map(<pure builtin>, seq...): folded element-wise
                inner = _Helper(args[0].id)
                seqs = [self._fold(a, mod, env) for a in args[1:]]
                try:
                    return [inner(list(t), {}) for t in zip(*[list(s_) for s_ in seqs])]
                except TypeError:
                    raise Unfoldable("map over a non-sequence")
        if callee is None:
            raise Unfoldable("call %s" % A.src(n.func))
        vals = [self._fold(a, mod, env) for a in args]
        kws = {k.arg: self._fold(k.value, mod, env) for k in n.keywords}
        return callee(vals, kws)


_OBJECT_DIR = ("__class__", "__delattr__", "__dir__", "__doc__", "__eq__", "__format__", "__ge__", "__getattribute__", "__getstate__",
               "__gt__", "__hash__", "__init__", "__init_subclass__", "__le__", "__lt__", "__ne__", "__new__", "__reduce__",
               "__reduce_ex__", "__repr__", "__setattr__", "__sizeof__", "__str__", "__subclasshook__")   # dir(object), CPython 3


class _DictItems(list):
    pass


class _Helper:
    def __init__(self, name):
        self.name = name

    def __call__(self, a, kw):
        nm = self.name
        try:
            if nm == "Struct":
                return StructVal(a[0])
            if nm == "BYTES_LITERAL":
                return bytes(a[0], "utf8")
            if nm == "dict":
                d = dict(*a)
                d.update(kw)
                return d
            if nm == "set":
                return set(*a)
            if nm == "frozenset":
                return frozenset(*a)
            if nm == "tuple":
                return tuple(*a)
            if nm == "list":
                return list(*a)
            if nm == "sorted":
                return sorted(*a)
            if nm == "zip":
                return [tuple(t) for t in zip(*[list(x) for x in a])]
            if nm == "enumerate":
                return [tuple(t) for t in enumerate(list(a[0]), *a[1:])]
            if nm == "reversed":
                return list(reversed(list(a[0])))
            if nm == "range":
                r = range(*a)
                if len(r) > 100000:
                    raise Unfoldable("range too large")
                return r
            if nm == "type":
                if len(a) != 1:
                    raise Unfoldable("type/3")
                return type(a[0])
            if nm == "bytes":
                if len(a) == 1 and isinstance(a[0], (list, tuple)) and all(isinstance(x, int) for x in a[0]):
                    return bytes(a[0])
                if len(a) == 2 and isinstance(a[0], str):
                    return bytes(a[0], a[1])
                raise Unfoldable("bytes()")
            if nm == "len":
                return len(a[0])
            if nm in ("min", "max"):
                return (min if nm == "min" else max)(*a)
            if nm == "str" and len(a) == 1 and isinstance(a[0], (int, str)):
                return str(a[0])
            if nm == "int" and len(a) == 1 and isinstance(a[0], (int, str, bool)):
                return int(a[0])
        except Unfoldable:
            raise
        except Exception as e:
            raise Unfoldable("%s(...) failed: %s" % (nm, e))
        raise Unfoldable("helper %s" % nm)


def _same(a, b):
    try:
        return type(a) is type(b) and a == b
    except Exception:
        return False


def class_attr(folder, repo, cls, name):
    """fold a class-level attribute through the MRO (Channel.FRAME_HEADER, SocketStream.MAX_IO_CHUNK, ...)"""
    for c in repo.mro(cls):
        if name in c.attrs:
            return folder.fold(c.attrs[name], c.module)
    raise Unfoldable("class attribute %s.%s" % (cls.qual, name))

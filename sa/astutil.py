"""Small AST helpers shared by every rule (pure stdlib `ast`)."""
import ast

FUNC_TYPES = (ast.FunctionDef, ast.AsyncFunctionDef, ast.Lambda)
SCOPE_TYPES = FUNC_TYPES + (ast.ClassDef,)


def set_parents(tree):
    tree._parent = None
    for node in ast.walk(tree):
        for child in ast.iter_child_nodes(node):
            child._parent = node
    return tree


def dotted(node):
    """'self._channel.send' for Name/Attribute chains, else None."""
    parts = []
    while isinstance(node, ast.Attribute):
        parts.append(node.attr)
        node = node.value
    if isinstance(node, ast.Name):
        parts.append(node.id)
        return ".".join(reversed(parts))
    if isinstance(node, ast.Call) and isinstance(node.func, ast.Name) and node.func.id == "super":
        parts.append("super()")
        return ".".join(reversed(parts))
    return None


def walk(node, into_scopes=False):
    """Pre-order walk from `node`; by default does not descend into the bodies of *nested*
    function/class/lambda scopes (the nested def node itself is yielded)."""
    yield node
    for child in ast.iter_child_nodes(node):
        yield from _walk(child, into_scopes)


def _walk(n, into):
    yield n
    if not into and isinstance(n, SCOPE_TYPES):
        return
    for c in ast.iter_child_nodes(n):
        yield from _walk(c, into)


def calls(node, into_scopes=False):
    return [n for n in walk(node, into_scopes) if isinstance(n, ast.Call)]


def call_name(call):
    return dotted(call.func)


def find_calls(node, *names, into_scopes=False):
    """Call nodes whose dotted callee equals one of names, or ends with '.'+name when name starts with '.'"""
    out = []
    for c in calls(node, into_scopes):
        d = call_name(c)
        if d is None:
            # method call on a non-name receiver, e.g. f(x).g(): match by attribute suffix only
            if isinstance(c.func, ast.Attribute):
                d = "?." + c.func.attr
            else:
                continue
        for nm in names:
            if d == nm or (nm.startswith(".") and d.endswith(nm)):
                out.append(c)
                break
    return out


def names_loaded(node, into_scopes=True):
    return {n.id for n in walk(node, into_scopes) if isinstance(n, ast.Name) and isinstance(n.ctx, ast.Load)}


def names_stored(node):
    out = set()
    for n in walk(node):
        if isinstance(n, ast.Name) and isinstance(n.ctx, (ast.Store, ast.Del)):
            out.add(n.id)
    return out


def src(node):
    try:
        return ast.unparse(node)
    except Exception:
        return "<%s>" % type(node).__name__


def norm(node):
    """normalised statement text (used for keys; independent of positions/formatting)"""
    return " ".join(src(node).split())


def enclosing(node, types):
    n = getattr(node, "_parent", None)
    while n is not None and not isinstance(n, types):
        n = getattr(n, "_parent", None)
    return n


def ancestors(node):
    n = getattr(node, "_parent", None)
    while n is not None:
        yield n
        n = getattr(n, "_parent", None)


def is_const(node, value=None):
    if not isinstance(node, ast.Constant):
        return False
    return value is None or (node.value == value and type(node.value) is type(value))


def const_str(node):
    if isinstance(node, ast.Constant) and isinstance(node.value, str):
        return node.value
    return None


def params(func):
    a = func.args
    return [x.arg for x in a.posonlyargs + a.args]


def arg_range(func, bound=True):
    """(required, max) positional-argument counts; max None when *args. bound drops self."""
    a = func.args
    pos = a.posonlyargs + a.args
    n = len(pos)
    req = n - len(a.defaults)
    if bound and n:
        n -= 1
        req = max(0, req - 1)
    return req, (None if a.vararg else n)


def in_loop(node, stop):
    """True if node is inside a loop statement below `stop` (function node)."""
    for a in ancestors(node):
        if a is stop:
            return False
        if isinstance(a, (ast.For, ast.While, ast.ListComp, ast.GeneratorExp, ast.SetComp, ast.DictComp)):
            return True
    return False


def contains(outer, inner):
    return any(n is inner for n in ast.walk(outer))


def clone(node):
    """structural copy of an AST subtree: copies the syntax fields and positions only, keeps a shallow reference to the
    owning module, and drops the analysis annotations (_parent/_func/_class) - unlike copy.deepcopy, which would follow
    them into the whole program"""
    if isinstance(node, list):
        return [clone(x) for x in node]
    if not isinstance(node, ast.AST):
        return node
    new = type(node)()
    for fld, val in ast.iter_fields(node):
        setattr(new, fld, clone(val))
    for a in ("lineno", "col_offset", "end_lineno", "end_col_offset"):
        if hasattr(node, a):
            setattr(new, a, getattr(node, a))
    if hasattr(node, "_module"):
        new._module = node._module
    if hasattr(node, "block_id") and isinstance(node, ast.stmt):
        new.block_id = node.block_id
    return new


class InlineBlock(ast.stmt):
    """synthetic statement produced by the inliner: the body of an inlined helper that has early returns. Control
    leaves the block at its end or at an InlineExit with the same block_id (the helper's `return`)."""
    _fields = ("body",)
    _attributes = ("lineno", "col_offset", "end_lineno", "end_col_offset")
    block_id = 0


class InlineExit(ast.stmt):
    """synthetic statement: leave the enclosing InlineBlock `block_id` (an inlined helper's `return`)"""
    _fields = ()
    _attributes = ("lineno", "col_offset", "end_lineno", "end_col_offset")
    block_id = 0

"""Shape extraction for the brine codec: a tiny symbolic executor over the statement forms the
dump/load functions use. Anything outside the fragment raises AnalysisError (fail closed)."""
import ast
import copy

from . import astutil as A
from .constfold import StructVal, Unfoldable
from .safeeval import ev, CannotEval
from .loader import AnalysisError

BRINE = "rpyc.core.brine"


# ---------------------------------------------------------------------------------- helpers
class Subst(ast.NodeTransformer):
    def __init__(self, env):
        self.env = env

    def visit_Name(self, node):
        if isinstance(node.ctx, ast.Load) and node.id in self.env:
            return A.clone(self.env[node.id])
        return node


def subst(expr, env):
    return Subst(env).visit(A.clone(expr))


def registry_functions(ctx, registry):
    """[(key expr, Func)] for @register(<registry>, key) decorated module-level functions of brine"""
    out = []
    mod = ctx.module(BRINE)
    for st in mod.tree.body:
        if isinstance(st, ast.FunctionDef):
            for dec in st.decorator_list:
                if isinstance(dec, ast.Call) and A.call_name(dec) == "register" and len(dec.args) == 2 \
                        and A.dotted(dec.args[0]) == registry:
                    out.append((dec.args[1], st._func))
    return out


def _registry_types(ctx, regs):
    """[(Func, {types})] from registry_functions() output (keys folded)"""
    out = {}
    for key, fn in regs:
        try:
            t = ctx.folder.fold(key, ctx.module(BRINE))
        except Unfoldable:
            continue
        out.setdefault(id(fn), (fn, set()))[1].add(t)
    return list(out.values())


# ---------------------------------------------------------------------------------- dump side
class DumpPath:
    def __init__(self):
        self.guards = []     # (substituted expr, polarity)
        self.raw = []        # ('append', expr, node) | ('child', expr, node) | ('children', expr, node) | ('raise', expr, node)
        self.items = []      # filled by materialise(): ('bytes', b) | ('pack', fmt, [args]) | ('imm', key, table) | ('raw', expr)
        #                      | ('child', expr) | ('children', iter expr)
        self.nodes = []      # ast nodes of the emitting statements (for locations)
        self.done = False    # a `return` was executed: later statements do not run on this path

    def clone(self):
        p = DumpPath()
        p.guards = list(self.guards)
        p.raw = list(self.raw)
        p.items = list(self.items)
        p.nodes = list(self.nodes)
        p.done = self.done
        return p

    def layout(self):
        return [it[0] if it[0] != "bytes" else it for it in self.items]


class _Sized:
    """stand-in for a value of which only the length is known (truth value = non-empty)"""
    def __init__(self, n):
        self.n = n

    def __len__(self):
        return self.n


class ValEnv(dict):
    """environment of the safe evaluator for one valuation: module constants are folded on demand, `len(x)` of a value
    that is not a constant is the valuation's length, the dumper's parameter is the valuation's value (if any)"""
    def __init__(self, ctx, valuation, objname):
        dict.__init__(self)
        self.ctx = ctx
        self.val = valuation
        self.objname = objname

    def lookup(self, e):
        try:
            return True, self.ctx.folder.fold(e, self.ctx.module(BRINE))
        except Unfoldable:
            pass
        if isinstance(e, ast.Attribute) and isinstance(e.value, ast.Name) and e.value.id == self.objname and \
                e.attr in self.val.get("attrs", {}):
            return True, self.val["attrs"][e.attr]
        if isinstance(e, ast.Name) and e.id == self.objname:
            if "value" in self.val:
                return True, self.val["value"]
            if self.val.get("truth") is not None:
                return True, bool(self.val["truth"])
            if self.val.get("len") is not None:
                return True, _Sized(self.val["len"])     # str/bytes/tuple: empty <=> falsy
        return False, None

    def calls(self):
        def hook(c):
            d = A.call_name(c)
            if d == "len" and len(c.args) == 1:
                try:
                    v = self.ctx.folder.fold(c.args[0], self.ctx.module(BRINE))
                    return True, len(v)
                except (Unfoldable, TypeError):
                    pass
                if self.val.get("len") is not None:
                    return True, self.val["len"]
                raise CannotEval("length unknown")
            return False, None
        return {"*": hook}


def safe_value(ctx, e, valuation, objname):
    env = ValEnv(ctx, valuation, objname)
    return ev(e, env, env.calls())


def materialise(ctx, path, valuation, objname):
    """classify what the path writes under this valuation"""
    items = []
    for kind, expr, node in path.raw:
        if kind == "append":
            for atom in _flatten_add(expr):
                items.append(_atom(ctx, atom, valuation, objname))
        elif kind in ("child", "children", "raise"):
            items.append((kind, expr))
    # a raw payload of known length 0 contributes no bytes
    if valuation.get("len") == 0:
        items = [it for it in items if not (it[0] == "raw" and _is_measured(it[1], objname))]
    path.items = items
    return items


def imm_byte(ctx, item, valuation, objname):
    """the byte string an ('imm', index expression, table name) item writes under this valuation; LookupError when the lookup
    fails (no such key / index out of range)"""
    mod = ctx.module(BRINE)
    try:
        tbl = ctx.folder.fold(ast.Name(id=item[2], ctx=ast.Load()), mod)
    except Unfoldable as e:
        raise AnalysisError("immediate table %s does not fold: %s" % (item[2], e))
    try:
        idx = safe_value(ctx, item[1], valuation, objname)
    except CannotEval as e:
        raise AnalysisError("index `%s` of the immediate table cannot be evaluated: %s" % (A.src(item[1]), e))
    return tbl[idx]


def imm_reference(ctx):
    """{int: byte} the READER implements (inverse of IMM_INTS_LOADER), falling back to IMM_INTS when that is a dict"""
    mod = ctx.module(BRINE)
    try:
        ld = ctx.folder.fold(ast.Name(id="IMM_INTS_LOADER", ctx=ast.Load()), mod)
        if isinstance(ld, dict):
            return {v: k for k, v in ld.items()}
    except Unfoldable:
        pass
    try:
        t = ctx.folder.fold(ast.Name(id="IMM_INTS", ctx=ast.Load()), mod)
        if isinstance(t, dict):
            return dict(t)
    except Unfoldable:
        pass
    return None


def _is_measured(expr, objname):
    return True


def _flatten_add(e):
    if isinstance(e, ast.BinOp) and isinstance(e.op, ast.Add):
        return _flatten_add(e.left) + _flatten_add(e.right)
    return [e]


def _atom(ctx, e, valuation, objname):
    mod = ctx.module(BRINE)
    if isinstance(e, ast.Call) and isinstance(e.func, ast.Attribute) and e.func.attr == "pack":
        try:
            sv = ctx.folder.fold(e.func.value, mod)
        except Unfoldable:
            sv = None
        if isinstance(sv, StructVal):
            return ("pack", sv.format, list(e.args))
    if isinstance(e, ast.Subscript):
        try:
            tbl = ctx.folder.fold(e.value, mod)
        except Unfoldable:
            tbl = None
        if isinstance(tbl, dict) and isinstance(e.slice, ast.Name) and e.slice.id == objname:
            return ("imm", e.slice, A.dotted(e.value))
        if isinstance(tbl, (dict, list, tuple)) and A.dotted(e.value) and "value" in valuation and any(
                isinstance(x, ast.Name) and x.id == objname for x in ast.walk(e.slice)):
            return ("imm", e.slice, A.dotted(e.value))     # an immediate table indexed by a function of the value
    try:
        v = safe_value(ctx, e, valuation, objname)
        if isinstance(v, bytes):
            return ("bytes", v)
    except CannotEval:
        pass
    return ("raw", e)


def stream_param(fn_node):
    """which of a dumper's two parameters is the output list: the one `.append`/`.extend` is called on, or that is handed on as
    such; by default the second (the order on the reference tree)"""
    prm = A.params(fn_node)
    if len(prm) != 2:
        return prm[-1] if prm else None
    for n in ast.walk(fn_node):
        if isinstance(n, ast.Call) and isinstance(n.func, ast.Attribute) and n.func.attr in ("append", "extend") and \
                isinstance(n.func.value, ast.Name) and n.func.value.id in prm:
            return n.func.value.id
    for n in ast.walk(fn_node):
        # the dispatcher itself: the value is the parameter whose type() selects the dumper, the stream is the other one
        if isinstance(n, ast.Call) and isinstance(n.func, ast.Name) and n.func.id == "type" and len(n.args) == 1 and \
                isinstance(n.args[0], ast.Name) and n.args[0].id in prm:
            return [p_ for p_ in prm if p_ != n.args[0].id][0]
    return prm[1]


def obj_param(fn_node):
    prm = A.params(fn_node)
    sp = stream_param(fn_node)
    others = [p_ for p_ in prm if p_ != sp]
    return others[0] if others else prm[0]


def _obj_arg(call, prm_stream):
    """the value argument of a two-argument dumper call `f(value, stream)` / `f(stream, value)`"""
    if len(call.args) != 2:
        return None
    if A.dotted(call.args[1]) == prm_stream:
        return call.args[0]
    if A.dotted(call.args[0]) == prm_stream:
        return call.args[1]
    return None


class DumpExec:
    def __init__(self, ctx):
        self.ctx = ctx
        self.mod = ctx.module(BRINE)

    def run(self, func, arg_expr=None, depth=0):
        prm = A.params(func.node)
        if len(prm) != 2:
            raise AnalysisError("dumper %s does not take (obj, stream)" % func.qual)
        env = {}
        if arg_expr is not None:
            env[obj_param(func.node)] = arg_expr
        self.objname = obj_param(func.node) if arg_expr is None else getattr(self, "objname", obj_param(func.node))
        self.stream = stream_param(func.node)
        paths = self.block(func.node.body, [(DumpPath(), env)], func, depth)
        return [p for p, e in paths]

    def block(self, stmts, states, func, depth):
        for st in stmts:
            new = []
            for (p, env) in states:
                if p.done:
                    new.append((p, env))
                else:
                    new.extend(self.stmt(st, p, env, func, depth))
            states = new
        return states

    def stmt(self, st, p, env, func, depth):
        prm_stream = stream_param(func.node)
        if isinstance(st, ast.Expr) and isinstance(st.value, ast.Constant):
            return [(p, env)]
        if isinstance(st, ast.Pass):
            return [(p, env)]
        if isinstance(st, ast.Assign) and len(st.targets) == 1 and isinstance(st.targets[0], ast.Name):
            env = dict(env)
            env[st.targets[0].id] = subst(st.value, env)
            return [(p, env)]
        if isinstance(st, ast.If):
            g = subst(st.test, env)
            pos = True
            while isinstance(g, ast.UnaryOp) and isinstance(g.op, ast.Not):
                g, pos = g.operand, not pos
            pt = p.clone()
            pt.guards.append((g, pos))
            pf = p.clone()
            pf.guards.append((g, not pos))
            out = self.block(st.body, [(pt, env)], func, depth)
            out += self.block(st.orelse, [(pf, env)], func, depth) if st.orelse else [(pf, env)]
            return out
        if isinstance(st, ast.Expr) and isinstance(st.value, ast.Call):
            c = st.value
            d = A.call_name(c)
            if d == prm_stream + ".append" and len(c.args) == 1:
                arg = subst(c.args[0], env)
                outs = []
                for guards, e in _split_ifexp(arg):
                    q = p.clone()
                    q.guards += guards
                    q.raw.append(("append", e, st))
                    q.nodes.append(st)
                    outs.append((q, env))
                return outs
            if d == prm_stream + ".extend" and len(c.args) == 1 and isinstance(c.args[0], (ast.Tuple, ast.List)) and \
                    not any(isinstance(x, ast.Starred) for x in c.args[0].elts):
                # stream.extend((a, b)) == stream.append(a); stream.append(b)
                states = [(p, env)]
                for el in c.args[0].elts:
                    ap = ast.Expr(value=ast.Call(func=ast.Attribute(value=ast.Name(id=prm_stream, ctx=ast.Load()), attr="append",
                                                                    ctx=ast.Load()), args=[el], keywords=[]))
                    ast.copy_location(ap, st)
                    ast.fix_missing_locations(ap)
                    for x in ast.walk(ap):
                        if not hasattr(x, "_module") and hasattr(st, "_module"):
                            x._module = st._module
                    states = [r for (p2, e2) in states for r in self.stmt(ap, p2, e2, func, depth)]
                return states
            if d == "_dump" and len(c.args) == 2 and _obj_arg(c, prm_stream) is not None:
                p = p.clone()
                p.raw.append(("child", subst(_obj_arg(c, prm_stream), env), st))
                p.nodes.append(st)
                return [(p, env)]
            # the registered dumper of an exact type called directly on a value that is exactly of that type (a tuple display or
            # tuple(...)): the same bytes as going through the type dispatch
            if d and _obj_arg(c, prm_stream) is not None:
                arg0 = subst(_obj_arg(c, prm_stream), env)
                exact = tuple if isinstance(arg0, ast.Tuple) or (isinstance(arg0, ast.Call) and A.call_name(arg0) == "tuple") else None
                if exact is not None:
                    regs = registry_functions(self.ctx, "_dump_registry")
                    r_ = self.ctx.repo.resolve_name(self.mod, d)
                    if r_ and r_[0] == "func" and any(fn is r_[1] and exact in ts for fn, ts in _registry_types(self.ctx, regs)):
                        p = p.clone()
                        p.raw.append(("child", arg0, st))
                        p.nodes.append(st)
                        return [(p, env)]
            # delegation to another dumper: inline it
            if d and _obj_arg(c, prm_stream) is not None:
                r = self.ctx.repo.resolve_name(self.mod, d)
                if r and r[0] == "func" and depth < 3:
                    sub = DumpExec(self.ctx)
                    sub.objname = self.objname
                    inner = sub.run(r[1], subst(_obj_arg(c, prm_stream), env), depth + 1)
                    out = []
                    for ip in inner:
                        q = p.clone()
                        q.done = False
                        q.guards += ip.guards
                        q.raw += ip.raw
                        q.nodes += [st] + ip.nodes
                        out.append((q, env))
                    return out
            raise AnalysisError("unsupported call in dumper %s: %s" % (func.qual, A.src(c)))
        if isinstance(st, ast.For) and not st.orelse and isinstance(st.target, ast.Name):
            # for item in X: _dump(item, stream)
            if len(st.body) == 1 and isinstance(st.body[0], ast.Expr) and isinstance(st.body[0].value, ast.Call):
                c = st.body[0].value
                if A.call_name(c) == "_dump" and isinstance(_obj_arg(c, prm_stream), ast.Name) \
                        and _obj_arg(c, prm_stream).id == st.target.id:
                    p = p.clone()
                    p.raw.append(("children", subst(st.iter, env), st))
                    p.nodes.append(st)
                    return [(p, env)]
            raise AnalysisError("unsupported loop in dumper %s" % func.qual)
        if isinstance(st, ast.Try) and not st.finalbody and not st.orelse and len(st.handlers) == 1 and len(st.body) == 1:
            # try: stream.append(TABLE[obj + K])  except IndexError/KeyError: <general form>
            # = if obj in M: stream.append(M[obj]) else: <general form>, M the mapping the lookup implements (a list index also
            # accepts -len..-1 and wraps). M must be the immediate table itself; any difference is recorded for R04.3.
            rw = self._lookup_try(st, env, func)
            if rw is not None:
                return self.stmt(rw, p, env, func, depth)
        if isinstance(st, ast.Raise):
            p = p.clone()
            p.raw.append(("raise", st.exc, st))
            p.done = True
            return [(p, env)]
        if isinstance(st, ast.Return) and st.value is None:
            p = p.clone()
            p.done = True
            return [(p, env)]
        raise AnalysisError("unsupported statement in dumper %s: %s" % (func.qual, A.norm(st)[:60]))

    def _lookup_try(self, st, env, func):
        h = st.handlers[0]
        b = st.body[0]
        prm = A.params(func.node)
        if not (isinstance(b, ast.Expr) and isinstance(b.value, ast.Call) and A.call_name(b.value) == stream_param(func.node) + ".append" and
                len(b.value.args) == 1 and isinstance(b.value.args[0], ast.Subscript) and h.name is None):
            return None
        sub = subst(b.value.args[0], env)
        caught = {A.dotted(x) for x in (h.type.elts if isinstance(h.type, ast.Tuple) else [h.type])} if h.type is not None else set()
        try:
            tbl = self.ctx.folder.fold(sub.value, self.mod)
        except Unfoldable:
            return None
        ref = imm_reference(self.ctx)
        idx = sub.slice
        off = 0
        if isinstance(idx, ast.BinOp) and isinstance(idx.op, (ast.Add, ast.Sub)):
            l, r = idx.left, idx.right
            try:
                if isinstance(l, ast.Name) and l.id == self.objname:
                    k = self.ctx.folder.fold(r, self.mod)
                    off = k if isinstance(idx.op, ast.Add) else -k
                elif isinstance(r, ast.Name) and r.id == self.objname and isinstance(idx.op, ast.Add):
                    off = self.ctx.folder.fold(l, self.mod)
                else:
                    return None
            except Unfoldable:
                return None
            if not isinstance(off, int):
                return None
        elif not (isinstance(idx, ast.Name) and idx.id == self.objname):
            return None
        if isinstance(tbl, (list, tuple)) and caught & {"IndexError", "LookupError", "Exception"}:
            n = len(tbl)
            mapping = {i - off: tbl[i] for i in range(-n, n)}
        elif isinstance(tbl, dict) and caught & {"KeyError", "LookupError", "Exception"}:
            mapping = {k - off: v for k, v in tbl.items() if isinstance(k, int)}
        else:
            return None
        if not isinstance(ref, dict):
            return None
        if mapping != ref:
            wrong = sorted(k for k in mapping if mapping[k] != ref.get(k))
            miss = sorted(k for k in ref if k not in mapping)
            notes = getattr(self.ctx, "_imm_mismatch", None)
            if notes is None:
                notes = self.ctx._imm_mismatch = {}
            notes[func.qual] = (st, "`%s` succeeds for %d int value(s) outside the immediate table (e.g. %s is written as the byte of "
                                "%s)" % (A.src(sub), len(wrong), wrong[-1], [k for k, v in ref.items() if v == mapping[wrong[-1]]][:1])
                                if wrong else "`%s` misses immediate value(s) %s" % (A.src(sub), miss[:3]))
        obj = ast.Name(id=self.objname, ctx=ast.Load())
        # the mapping the lookup implements, under a synthetic module-level name the folder knows
        self.ctx.folder._cache[(self.mod.name, "__IMM_WRITER__")] = mapping
        tname = ast.Name(id="__IMM_WRITER__", ctx=ast.Load())
        app = ast.Expr(value=ast.Call(func=b.value.func, args=[ast.Subscript(value=tname, slice=obj, ctx=ast.Load())], keywords=[]))
        new = ast.If(test=ast.Compare(left=obj, ops=[ast.In()], comparators=[tname]), body=[app], orelse=list(h.body))
        ast.copy_location(new, st)
        ast.copy_location(app, b)
        ast.fix_missing_locations(new)
        for x in ast.walk(new):
            if not hasattr(x, "_module") and hasattr(st, "_module"):
                x._module = st._module
        return new

    def atoms(self, e):
        if isinstance(e, ast.BinOp) and isinstance(e.op, ast.Add):
            return self.atoms(e.left) + self.atoms(e.right)
        try:
            v = self.ctx.folder.fold(e, self.mod)
            if isinstance(v, bytes):
                return [("bytes", v)]
        except Unfoldable:
            pass
        if isinstance(e, ast.Call) and isinstance(e.func, ast.Attribute) and e.func.attr == "pack":
            try:
                s = self.ctx.folder.fold(e.func.value, self.mod)
            except Unfoldable:
                s = None
            if isinstance(s, StructVal):
                return [("pack", s.format, list(e.args))]
        if isinstance(e, ast.Subscript):
            try:
                tbl = self.ctx.folder.fold(e.value, self.mod)
            except Unfoldable:
                tbl = None
            if isinstance(tbl, dict):
                return [("imm", e.slice, A.dotted(e.value))]
        return [("raw", e)]


def _split_ifexp(e):
    """[(guards, expr)] : conditional expressions in an appended value become separate paths"""
    for n in ast.walk(e):
        if isinstance(n, ast.IfExp):
            out = []
            for pol, branch in ((True, n.body), (False, n.orelse)):
                e2 = _replace_node(e, n, branch)
                for gs, ee in _split_ifexp(e2):
                    out.append(([(n.test, pol)] + gs, ee))
            return out
    return [([], e)]


def _replace_node(root, old, new):
    if root is old:
        return A.clone(new)

    class R(ast.NodeTransformer):
        def visit(self, node):
            if node is old:
                return A.clone(new)
            return self.generic_visit(node)
    import copy as _c
    # work on a structural copy that preserves identity mapping for `old`
    mapping = {}

    def cl(n):
        if isinstance(n, list):
            return [cl(x) for x in n]
        if not isinstance(n, ast.AST):
            return n
        if n is old:
            return A.clone(new)
        m = type(n)()
        for f, v in ast.iter_fields(n):
            setattr(m, f, cl(v))
        for a in ("lineno", "col_offset", "end_lineno", "end_col_offset"):
            if hasattr(n, a):
                setattr(m, a, getattr(n, a))
        return m
    return cl(root)


def eval_guard(ctx, g, valuation, objname="obj"):
    """evaluate a substituted guard under a valuation {'len': m} | {'value': v, 'len': digits} | {'truth': b}"""
    if isinstance(g, ast.Name) and g.id == objname:
        if valuation.get("truth") is not None:
            return valuation["truth"]
        if valuation.get("len") is not None and "value" not in valuation:
            return valuation["len"] > 0        # str/bytes/tuple: empty <=> falsy (an empty str encodes to 0 bytes)
        if "value" in valuation:
            return bool(valuation["value"])
        raise AnalysisError("guard `%s` needs a truth valuation" % A.src(g))
    try:
        return bool(safe_value(ctx, g, valuation, objname))
    except CannotEval as e:
        raise AnalysisError("unsupported guard `%s` (%s)" % (A.src(g), e))


def guard_constants(ctx, paths):
    out = set()
    for p in paths:
        for g, pol in p.guards:
            for n in ast.walk(g):
                if isinstance(n, ast.Constant) and isinstance(n.value, int) and not isinstance(n.value, bool):
                    out.add(n.value)
                elif isinstance(n, ast.Name):
                    try:
                        v = ctx.folder.fold(n, ctx.module(BRINE))
                        if isinstance(v, int) and not isinstance(v, bool):
                            out.add(v)
                        elif isinstance(v, (tuple, list, dict, bytes)):
                            out.add(len(v))
                    except Unfoldable:
                        pass
    return out


def select_path(ctx, paths, valuation, objname="obj"):
    hit = []
    for p in paths:
        ok = True
        for g, pol in p.guards:
            if bool(eval_guard(ctx, g, valuation, objname)) != pol:
                ok = False
                break
        if ok:
            hit.append(p)
    if len(hit) != 1:
        raise AnalysisError("guard chain is not a partition: %d paths match %r" % (len(hit), valuation))
    materialise(ctx, hit[0], valuation, objname)
    return hit[0]


# ---------------------------------------------------------------------------------- load side
class LoadExec:
    """symbolic evaluation of a loader into a term; stream reads / nested loads are numbered in
    evaluation order"""
    def __init__(self, ctx):
        self.ctx = ctx
        self.mod = ctx.module(BRINE)

    def run(self, func):
        prm = A.params(func.node)
        if len(prm) != 1:
            raise AnalysisError("loader %s does not take (stream)" % func.qual)
        self.stream = prm[0]
        self.n = 0
        env = {}
        for st in func.node.body:
            if isinstance(st, ast.Expr) and isinstance(st.value, ast.Constant):
                continue
            if isinstance(st, ast.Assign) and len(st.targets) == 1:
                val = self.term(st.value, env)
                t = st.targets[0]
                if isinstance(t, ast.Name):
                    env[t.id] = val
                elif isinstance(t, (ast.Tuple, ast.List)) and all(isinstance(e, ast.Name) for e in t.elts):
                    k = len(t.elts)
                    for i, e in enumerate(t.elts):
                        env[e.id] = ("item", val, i, k)
                else:
                    raise AnalysisError("unsupported assignment in loader %s" % func.qual)
                continue
            if isinstance(st, ast.Return):
                return self.term(st.value, env) if st.value is not None else ("const", None)
            raise AnalysisError("unsupported statement in loader %s: %s" % (func.qual, A.norm(st)[:60]))
        return ("const", None)

    def fresh(self):
        self.n += 1
        return self.n

    def term(self, e, env):
        if isinstance(e, ast.Constant):
            return ("const", e.value)
        if isinstance(e, ast.Attribute):
            v = self.ctx.try_fold(e, self.mod)
            if v is not None:
                return ("const", v)
        if isinstance(e, ast.Name):
            if e.id in env:
                return env[e.id]
            if e.id in ("None", "True", "False", "NotImplemented", "Ellipsis"):
                return ("const", {"None": None, "True": True, "False": False, "NotImplemented": NotImplemented,
                                  "Ellipsis": Ellipsis}[e.id])
            try:
                return ("const", self.ctx.folder.fold(e, self.mod))
            except Unfoldable:
                return ("name", e.id)
        if isinstance(e, ast.Tuple):
            return ("tuple",) + tuple(self.term(x, env) for x in e.elts)
        if isinstance(e, ast.Subscript):
            base = self.term(e.value, env)
            idx = self.ctx.try_fold(e.slice)
            if isinstance(idx, int):
                return ("item", base, idx, None)
            return ("opaque", A.src(e), base)
        if isinstance(e, ast.Call):
            d = A.call_name(e)
            if d == self.stream + ".read" and len(e.args) == 1:
                size = self.term(e.args[0], env)
                return ("read", self.fresh(), size)
            if d == "_load" and len(e.args) == 1 and A.dotted(e.args[0]) == self.stream:
                return ("load", self.fresh())
            if isinstance(e.func, ast.Attribute) and e.func.attr == "unpack" and len(e.args) == 1:
                s = self.ctx.try_fold(e.func.value, self.mod)
                if isinstance(s, StructVal):
                    return ("unpack", s.format, self.term(e.args[0], env))
            if isinstance(e.func, ast.Attribute) and e.func.attr == "decode":
                codec = self.ctx.try_fold(e.args[0]) if e.args else "utf-8"
                errors = self.ctx.try_fold(e.args[1]) if len(e.args) > 1 else "strict"
                for kw in e.keywords:
                    if kw.arg == "errors":
                        errors = self.ctx.try_fold(kw.value)
                    if kw.arg == "encoding":
                        codec = self.ctx.try_fold(kw.value)
                return ("decode", self.term(e.func.value, env), norm_codec(codec), errors)
            if d in ("int", "complex", "slice", "frozenset", "tuple", "bytes", "str", "float", "set", "list", "bool"):
                if d == "tuple" and len(e.args) == 1 and isinstance(e.args[0], (ast.GeneratorExp, ast.ListComp)):
                    ge = e.args[0]
                    if len(ge.generators) == 1 and isinstance(ge.elt, ast.Call) and A.call_name(ge.elt) == "_load" \
                            and isinstance(ge.generators[0].iter, ast.Call) \
                            and A.call_name(ge.generators[0].iter) == "range" and len(ge.generators[0].iter.args) == 1 \
                            and not ge.generators[0].ifs:
                        cnt = self.term(ge.generators[0].iter.args[0], env)
                        if cnt and cnt[0] == "const" and isinstance(cnt[1], int) and 0 <= cnt[1] <= 16:
                            return ("tuple",) + tuple(("load", self.fresh()) for _ in range(cnt[1]))
                        return ("tuple_n", cnt)
                    raise AnalysisError("unsupported generator in loader: %s" % A.src(e))
                args = []
                for a in e.args:
                    if isinstance(a, ast.Starred):
                        base = self.term(a.value, env)
                        k = None
                        if base and base[0] == "unpack":
                            import struct as _struct
                            try:
                                k = len(_struct.unpack(base[1], b"\0" * _struct.calcsize(base[1])))
                            except _struct.error:
                                k = None
                        if k is None:
                            args.append(("star", base))       # arity decided by the data: not one of the published fixed shapes
                        else:
                            args.extend(("item", base, i, k) for i in range(k))
                    else:
                        args.append(self.term(a, env))
                return ("ctor", d) + tuple(args)
            return ("opaque", A.src(e)) + tuple(self.term(a, env) for a in e.args)
        if isinstance(e, (ast.BinOp, ast.UnaryOp, ast.Compare, ast.BoolOp, ast.IfExp)):
            # arithmetic on decoded values: not one of the published reconstruction forms
            subs = []
            for ch in ast.iter_child_nodes(e):
                if isinstance(ch, ast.expr):
                    subs.append(self.term(ch, env))
            return ("opaque", A.src(e)) + tuple(subs)
        raise AnalysisError("unsupported expression in loader: %s" % A.src(e))


def norm_codec(c):
    if isinstance(c, str):
        return c.lower().replace("-", "").replace("_", "")
    return c


def simplify(t):
    """item(unpack(..), 0, 1) stays; item(tuple(a,b,c), i) -> component"""
    if not isinstance(t, tuple):
        return t
    t = tuple(simplify(x) for x in t)
    if t == ("tuple",):
        return ("const", ())
    if t and t[0] == "item" and isinstance(t[1], tuple) and t[1] and t[1][0] == "tuple":
        return t[1][1 + t[2]]
    return t

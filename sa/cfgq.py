"""Queries over sa.cfg.CFG: reachability, dominators, must-pass-through, path counting, reaching defs."""
import ast

from . import astutil as A


def succs(n, labels=None):
    for t, l in n.succ:
        if labels is None or l in labels:
            yield t


def preds(n, labels=None):
    for t, l in n.pred:
        if labels is None or l in labels:
            yield t


def reach(starts, avoid=(), labels=None, backward=False, include_starts=True):
    """nodes reachable from `starts` (a node or iterable) without entering a node of `avoid`"""
    if not isinstance(starts, (list, tuple, set, frozenset)):
        starts = [starts]
    avoid_ids = {n.id for n in avoid}
    seen = {}
    stack = []
    for s in starts:
        if include_starts:
            if s.id not in avoid_ids:
                stack.append(s)
        else:
            for t in (preds(s, labels) if backward else succs(s, labels)):
                if t.id not in avoid_ids:
                    stack.append(t)
    while stack:
        n = stack.pop()
        if n.id in seen:
            continue
        seen[n.id] = n
        for t in (preds(n, labels) if backward else succs(n, labels)):
            if t.id not in seen and t.id not in avoid_ids:
                stack.append(t)
    return set(seen.values())


def find_path(src, dsts, avoid=(), labels=None, skip_first=False):
    """shortest path (list of nodes) from src to any node in dsts avoiding `avoid`, or None.
    skip_first: do not test src itself as destination / avoided."""
    dst_ids = {d.id for d in dsts}
    avoid_ids = {n.id for n in avoid}
    from collections import deque
    q = deque()
    parent = {}
    if not skip_first and src.id in avoid_ids:
        return None
    if not skip_first and src.id in dst_ids:
        return [src]
    q.append(src)
    parent[src.id] = None
    byid = {src.id: src}
    while q:
        n = q.popleft()
        for t in succs(n, labels):
            if t.id in dst_ids:
                path = [t, n]
                p = parent[n.id]
                while p is not None:
                    path.append(byid[p])
                    p = parent[p]
                return list(reversed(path))
            if t.id in parent or t.id in avoid_ids:
                continue
            parent[t.id] = n.id
            byid[t.id] = t
            q.append(t)
    return None


def must_pass(src, dsts, through, labels=None, skip_first=True):
    """True iff every path from src (exclusive by default) to a node of dsts contains a node of `through`.
    Returns (ok, witness_path)"""
    p = find_path(src, dsts, avoid=through, labels=labels, skip_first=skip_first)
    return (p is None), p


def dominators(cfg, labels=None):
    """node id -> set of dominator ids (entry-rooted), over live nodes"""
    nodes = cfg.live
    allids = {n.id for n in nodes}
    dom = {n.id: set(allids) for n in nodes}
    dom[cfg.entry.id] = {cfg.entry.id}
    changed = True
    order = nodes
    while changed:
        changed = False
        for n in order:
            if n is cfg.entry:
                continue
            ps = [p for p in preds(n, labels) if p.id in allids]
            if not ps:
                new = {n.id}
            else:
                new = set.intersection(*(dom[p.id] for p in ps)) | {n.id}
            if new != dom[n.id]:
                dom[n.id] = new
                changed = True
    return dom


def dominated_by(cfg, node, candidates, dom=None):
    """does some node of `candidates` dominate `node`?"""
    dom = dom or dominators(cfg)
    cids = {c.id for c in candidates}
    return bool(dom[node.id] & (cids - {node.id})) or node.id in cids


def count_on_paths(cfg, start, is_event, count_labels=("next", "true", "false"), labels=None, cap=2, edge_ok=None):
    """forward dataflow: for every node, the set of possible numbers (capped) of event nodes whose
    outgoing edge (with a label in count_labels) was taken on a path from `start` to the *entry* of
    that node. Returns dict node id -> frozenset of counts."""
    state = {start.id: frozenset([0])}
    work = [start]
    byid = {n.id: n for n in cfg.live}
    while work:
        n = work.pop()
        cur = state[n.id]
        ev = is_event(n)
        for t, l in n.succ:
            if labels is not None and l not in labels:
                continue
            if edge_ok is not None and not edge_ok(n, t, l):
                continue
            if ev and l in count_labels:
                out = frozenset(min(c + 1, cap) for c in cur)
            else:
                out = cur
            old = state.get(t.id, frozenset())
            new = old | out
            if new != old:
                state[t.id] = new
                work.append(t)
    return state


# ---------------------------------------------------------------------------- reaching definitions
def node_defs(n):
    """local names (re)defined by a CFG node"""
    a = n.ast
    if a is None:
        return set()
    if n.kind == "except":
        return {a.name} if a.name else set()
    if n.kind == "for":
        return A.names_stored(n.owner.target)
    if n.kind == "with_enter":
        for it in n.owner.items:
            if it.context_expr is a and it.optional_vars is not None:
                return A.names_stored(it.optional_vars)
        return set()
    if n.kind in ("stmt",):
        out = set()
        if isinstance(a, (ast.FunctionDef, ast.ClassDef)):
            return {a.name}
        if isinstance(a, (ast.Import, ast.ImportFrom)):
            return {(al.asname or al.name).split(".")[0] for al in a.names}
        for x in A.walk(a):
            if isinstance(x, ast.Name) and isinstance(x.ctx, (ast.Store, ast.Del)):
                out.add(x.id)
        return out
    if n.kind == "test":
        return {x.target.id for x in A.walk(a) if isinstance(x, ast.NamedExpr)}
    return set()


class ReachingDefs:
    """var -> set of defining node ids at the entry of each node; parameters are defined at entry (-1)"""
    def __init__(self, cfg, labels=None, edge_ok=None):
        self.cfg = cfg
        f = cfg.func
        prm = set()
        a = f.args
        for x in a.posonlyargs + a.args + a.kwonlyargs:
            prm.add(x.arg)
        if a.vararg:
            prm.add(a.vararg.arg)
        if a.kwarg:
            prm.add(a.kwarg.arg)
        self.params = prm
        init = frozenset((p, -1) for p in prm)
        self.inn = {cfg.entry.id: init}
        defs = {n.id: node_defs(n) for n in cfg.live}
        work = [cfg.entry]
        while work:
            n = work.pop()
            cur = self.inn[n.id]
            d = defs[n.id]
            for t, l in n.succ:
                if labels is not None and l not in labels:
                    continue
                if edge_ok is not None and not edge_ok(n, t, l):
                    continue
                if d and l != "exc":
                    out = frozenset((v, k) for (v, k) in cur if v not in d) | frozenset((v, n.id) for v in d)
                else:
                    out = cur
                old = self.inn.get(t.id, frozenset())
                new = old | out
                if new != old:
                    self.inn[t.id] = new
                    work.append(t)
        self.byid = {n.id: n for n in cfg.live}

    def at(self, node, var):
        """set of def nodes (or 'param') reaching the entry of node for var"""
        out = set()
        for (v, k) in self.inn.get(node.id, ()):
            if v == var:
                out.add("param" if k == -1 else self.byid[k])
        return out


def nodes_where(cfg, pred):
    return [n for n in cfg.live if pred(n)]


def nodes_calling(cfg, *names):
    """nodes whose own AST (not nested scopes) contains a call to one of `names`"""
    out = []
    for n in cfg.live:
        if n.ast is None or n.kind in ("with_exit",):
            continue
        if n.kind == "except":
            continue
        if A.find_calls(n.ast, *names):
            out.append(n)
    return out


def path_text(repo_rel, path):
    return ["%s:%d %s" % (repo_rel, n.lineno, n.text()) for n in path]


# ---------------------------------------------------------------------------- edge-filtered variants
def find_path_ef(starts, is_dst, edge_ok, skip_first=True):
    """BFS over edges accepted by edge_ok(src, dst, label); starts: node or list; returns node list or None.
    A start node is not itself tested as destination when skip_first."""
    from collections import deque
    if not isinstance(starts, (list, tuple, set)):
        starts = [starts]
    parent = {}
    byid = {}
    q = deque()
    for s in starts:
        if not skip_first and is_dst(s):
            return [s]
        parent[s.id] = None
        byid[s.id] = s
        q.append(s)
    while q:
        n = q.popleft()
        for t, l in n.succ:
            if not edge_ok(n, t, l):
                continue
            if is_dst(t):
                path = [t, n]
                p = parent[n.id]
                while p is not None:
                    path.append(byid[p])
                    p = parent[p]
                return list(reversed(path))
            if t.id in parent:
                continue
            parent[t.id] = n.id
            byid[t.id] = t
            q.append(t)
    return None


def reach_ef(starts, edge_ok):
    if not isinstance(starts, (list, tuple, set)):
        starts = [starts]
    seen = {}
    stack = list(starts)
    while stack:
        n = stack.pop()
        if n.id in seen:
            continue
        seen[n.id] = n
        for t, l in n.succ:
            if t.id not in seen and edge_ok(n, t, l):
                stack.append(t)
    return set(seen.values())


def region_after(start_edges, stop_nodes):
    """nodes executed after taking one of start_edges [(src, label)] and before reaching a stop node
    (stop nodes themselves are included as the region's closing nodes)"""
    stop_ids = {n.id for n in stop_nodes}
    seen = {}
    stack = []
    for src, label in start_edges:
        for t, l in src.succ:
            if l == label:
                stack.append(t)
    while stack:
        n = stack.pop()
        if n.id in seen:
            continue
        seen[n.id] = n
        if n.id in stop_ids:
            continue
        for t, l in n.succ:
            if t.id not in seen:
                stack.append(t)
    return set(seen.values())


def dominating_conditions(cfg, node, dom=None, labels=("next", "true", "false")):
    """[(test_node, polarity)] : atomic branch conditions known to hold (polarity True) or fail (False)
    whenever `node` executes - i.e. tests that dominate node and from whose other edge node is
    unreachable without re-evaluating the test. Exceptional edges are ignored by default."""
    dom = dom or dominators(cfg)
    out = []
    byid = {n.id: n for n in cfg.live}
    for did in dom[node.id]:
        t = byid.get(did)
        if t is None or t.kind not in ("test", "for") or t is node:
            continue
        via = {}
        for lab in ("true", "false"):
            starts = [x for x, l in t.succ if l == lab]
            r = reach(starts, avoid=[t], labels=labels) if starts else set()
            via[lab] = node in r
        if via["true"] and not via["false"]:
            out.append((t, True))
        elif via["false"] and not via["true"]:
            out.append((t, False))
    return out


# ---------------------------------------------------------------------------- partial evaluation under a valuation
def valuation_edges(decide):
    """edge filter for the queries above: at a test node for which decide(node) returns True/False only the consistent
    edge is followed (None = unknown, both edges). Exceptional edges are always kept."""
    cache = {}

    def edge_ok(a, b, l):
        if a.kind == "test" and l in ("true", "false"):
            if a.id not in cache:
                cache[a.id] = decide(a)
            d = cache[a.id]
            if d is True and l == "false":
                return False
            if d is False and l == "true":
                return False
        return True
    return edge_ok


def reach_under(starts, decide, normal_only=True):
    ok = valuation_edges(decide)
    return reach_ef(starts, lambda a, b, l: (l != "exc" or not normal_only) and ok(a, b, l))


def var_const_decider(fold, var, value, aliases=()):
    """decide(test) for tests comparing the local `var` (or an alias) with constants: ==, !=, is, is not, in, not in.
    fold(expr) -> constant or None."""
    import ast as _ast
    names = {var} | set(aliases)

    def decide(node):
        e = node.ast
        if isinstance(e, _ast.Name) and e.id in names:
            return bool(value)
        if isinstance(e, _ast.Compare) and len(e.ops) == 1:
            l, r, op = e.left, e.comparators[0], e.ops[0]
            if isinstance(l, _ast.Name) and l.id in names and isinstance(op, (_ast.Lt, _ast.LtE, _ast.Gt, _ast.GtE)):
                other = fold(r)
                if other is None:
                    return None
                try:
                    return {_ast.Lt: value < other, _ast.LtE: value <= other, _ast.Gt: value > other,
                            _ast.GtE: value >= other}[type(op)]
                except TypeError:
                    return None
            if isinstance(l, _ast.Name) and l.id in names:
                other = fold(r)
                flip = False
            elif isinstance(r, _ast.Name) and r.id in names and isinstance(op, (_ast.Eq, _ast.NotEq, _ast.Is, _ast.IsNot)):
                other = fold(l)
                flip = True
            else:
                return None
            if other is None and not (isinstance(r if not flip else l, _ast.Constant)):
                return None
            try:
                if isinstance(op, (_ast.Eq, _ast.Is)):
                    return value == other
                if isinstance(op, (_ast.NotEq, _ast.IsNot)):
                    return value != other
                if isinstance(op, _ast.In):
                    return value in other
                if isinstance(op, _ast.NotIn):
                    return value not in other
            except TypeError:
                return None
        return None
    return decide


# ---------------------------------------------------------------------------------- path-sensitive reachability
NONE, NOTNONE = "None", "notNone"


def _absval(e, state):
    """abstract value of an expression: None-ness only"""
    import ast as _ast
    if isinstance(e, _ast.Constant):
        return NONE if e.value is None else NOTNONE
    if isinstance(e, _ast.Name):
        return state.get(e.id)
    if isinstance(e, (_ast.Tuple, _ast.List, _ast.Dict, _ast.Set, _ast.JoinedStr, _ast.Lambda, _ast.ListComp, _ast.DictComp,
                      _ast.SetComp, _ast.GeneratorExp)):
        return NOTNONE
    return None


def none_state_reach(starts, edge_ok=None, init=None, max_states=20000):
    """nodes reachable from `starts` along normal edges when the None-ness of local names bound to constants, tuples or
    other such names is tracked along each path and tests on them (`x is None`, `x is not None`, `x`, `not x` for None)
    are decided. Returns {node id: node}. A sound over-approximation: anything not understood is 'unknown' (both edges)."""
    import ast as _ast
    if not isinstance(starts, (list, tuple, set)):
        starts = [starts]
    seen = set()
    out = {}
    stack = [(s, frozenset((init or {}).items())) for s in starts]
    while stack:
        n, fs = stack.pop()
        if (n.id, fs) in seen:
            continue
        seen.add((n.id, fs))
        if len(seen) > max_states:
            raise RuntimeError("none_state_reach: state budget exceeded")
        out[n.id] = n
        st = dict(fs)
        decided = None
        a = n.ast
        if n.kind == "stmt" and isinstance(a, _ast.Assign):
            for t in a.targets:
                if isinstance(t, _ast.Name):
                    v = _absval(a.value, st)
                    if v is None:
                        st.pop(t.id, None)
                    else:
                        st[t.id] = v
                elif isinstance(t, (_ast.Tuple, _ast.List)):
                    for x in _ast.walk(t):
                        if isinstance(x, _ast.Name):
                            st.pop(x.id, None)
        elif n.kind in ("stmt", "for", "with_enter", "except") and a is not None:
            for x in _ast.walk(a if not isinstance(a, _ast.ExceptHandler) else _ast.Module(body=[], type_ignores=[])):
                if isinstance(x, _ast.Name) and isinstance(x.ctx, (_ast.Store, _ast.Del)):
                    st.pop(x.id, None)
            if isinstance(a, _ast.ExceptHandler) and a.name:
                st.pop(a.name, None)
            if n.kind == "for" and getattr(n, "owner", None) is not None:
                for x in _ast.walk(n.owner.target):
                    if isinstance(x, _ast.Name):
                        st.pop(x.id, None)
        elif n.kind == "test":
            e = a
            if isinstance(e, _ast.Name) and st.get(e.id) == NONE:
                decided = False
            elif isinstance(e, _ast.Compare) and len(e.ops) == 1 and isinstance(e.ops[0], (_ast.Is, _ast.IsNot)):
                l, r = _absval(e.left, st), _absval(e.comparators[0], st)
                if l is not None and r is not None and NONE in (l, r):
                    same = (l == r)
                    decided = same if isinstance(e.ops[0], _ast.Is) else not same
        nfs = frozenset(st.items())
        for t, l in n.succ:
            if l == "exc":
                continue
            if decided is True and l == "false" or decided is False and l == "true":
                continue
            if edge_ok is not None and not edge_ok(n, t, l):
                continue
            stack.append((t, nfs))
    return out

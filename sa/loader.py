"""Loader + symbol tables: parses every *.py of the package under $VERIF_REPO on each run."""
import ast
import copy
import hashlib
import os

from . import astutil as A


class AnalysisError(Exception):
    """anchor vanished / unsupported construct / floor not met -> exit 2, never a silent pass"""


class _Tagged:
    """view of an expression tree in which one IfExp node is presented as a Name (for tempinline._eval_order)"""
    def __new__(cls, root, ife):
        class Sub(ast.NodeTransformer):
            def visit_IfExp(self, n):
                if n is ife:
                    return ast.copy_location(ast.Name(id="__ifexp_marker__", ctx=ast.Load()), n)
                return self.generic_visit(n)

            def visit_Lambda(self, n):
                return n
        import copy
        # shallow structural copy that keeps node identity for the search: copy the spine only
        return Sub().visit(_spine_copy(root, ife))


def _spine_copy(root, target):
    """copy of `root` in which the nodes on the path to `target` are fresh objects and `target` itself is kept by identity"""
    if root is target:
        return root
    if not any(n is target for n in ast.walk(root)):
        return root
    new = type(root)()
    for fld, val in ast.iter_fields(root):
        if isinstance(val, list):
            setattr(new, fld, [_spine_copy(x, target) if isinstance(x, ast.AST) else x for x in val])
        elif isinstance(val, ast.AST):
            setattr(new, fld, _spine_copy(val, target))
        else:
            setattr(new, fld, val)
    return ast.copy_location(new, root)


def _replace_node_copy(stmt, old, new_expr):
    """copy of statement `stmt` with the expression node `old` (by identity) replaced by a clone of `new_expr`"""
    def rec(n):
        if n is old:
            return A.clone(new_expr)
        if isinstance(n, ast.AST):
            m = type(n)()
            for fld, val in ast.iter_fields(n):
                if isinstance(val, list):
                    setattr(m, fld, [rec(x) for x in val])
                else:
                    setattr(m, fld, rec(val))
            for a in ("lineno", "col_offset", "end_lineno", "end_col_offset"):
                if hasattr(n, a):
                    setattr(m, a, getattr(n, a))
            return m
        return n
    return rec(stmt)


class _LowerIfExp(ast.NodeTransformer):
    """normalisation: `x = A if C else B` and `return A if C else B` inside functions become if-statements, so the path rules
    see one form (behaviour-preserving: the test is evaluated once, then exactly one arm)"""
    def __init__(self):
        self.depth = 0
        self.locals = []

    def visit_FunctionDef(self, node):
        self.depth += 1
        loc = set()
        a = node.args
        for x in a.posonlyargs + a.args + a.kwonlyargs + [y for y in (a.vararg, a.kwarg) if y is not None]:
            loc.add(x.arg)
        for n in ast.walk(node):
            if isinstance(n, ast.Name) and isinstance(n.ctx, (ast.Store, ast.Del)):
                loc.add(n.id)
            elif isinstance(n, ast.ExceptHandler) and n.name:
                loc.add(n.name)
        self.locals.append(loc)
        self.generic_visit(node)
        self.locals.pop()
        self.depth -= 1
        return node
    visit_AsyncFunctionDef = visit_FunctionDef

    # comparisons: the operand that varies (locals, calls, self.<field>) on the left, the fixed one (constants, module-level
    # names, <module>.<NAME>) on the right -- `None is x`, `consts.MSG_REPLY == msg`, `0 < count` are normalised
    def _rank(self, e):
        if isinstance(e, ast.Constant):
            return 3
        if isinstance(e, ast.Name):
            return 1 if any(e.id in l for l in self.locals) else 2
        if isinstance(e, ast.Attribute):
            b = e
            while isinstance(b, ast.Attribute):
                b = b.value
            if isinstance(b, ast.Name):
                return 1 if (b.id in ("self", "cls") or any(b.id in l for l in self.locals)) else 2
            return 1
        if isinstance(e, ast.Tuple) and all(isinstance(x, ast.Constant) for x in e.elts):
            return 3
        return 1

    def visit_Compare(self, node):
        self.generic_visit(node)
        if self.depth and len(node.ops) == 1:
            op, l, r = node.ops[0], node.left, node.comparators[0]
            flip = {ast.Lt: ast.Gt, ast.Gt: ast.Lt, ast.LtE: ast.GtE, ast.GtE: ast.LtE, ast.Eq: ast.Eq, ast.NotEq: ast.NotEq,
                    ast.Is: ast.Is, ast.IsNot: ast.IsNot}
            if type(op) in flip and self._rank(l) > self._rank(r):
                node.left, node.comparators, node.ops = r, [l], [flip[type(op)]()]
        return node

    def _split(self, node, mk):
        v = node.value
        body, orelse = mk(v.body), mk(v.orelse)
        for x in (body, orelse):
            ast.copy_location(x, node)
        new = ast.copy_location(ast.If(test=v.test, body=[self.visit(body)], orelse=[self.visit(orelse)]), node)
        new._lowered_ifexp = True
        return new

    def _nested_split(self, node):
        """`f(a, X if C else Y)` (expression statement / assignment / return) where everything evaluated before the conditional
        expression is a plain name, constant or attribute: split into an if-statement with one copy of the statement per arm"""
        from . import tempinline as TI
        root = node.value
        if root is None or not self.depth:
            return None
        cands = [x for x in ast.walk(root) if isinstance(x, ast.IfExp) and x is not root]
        for ife in cands:
            marker = "__ifexp_marker__"
            # evaluate on the original tree: temporarily tag the IfExp
            try:
                TI._eval_order(_Tagged(root, ife), marker)
            except TI._Found:
                pass
            except TI._Blocked:
                continue
            else:
                continue

            body_stmt = _replace_node_copy(node, ife, ife.body)
            else_stmt = _replace_node_copy(node, ife, ife.orelse)
            new = ast.copy_location(ast.If(test=ife.test, body=[self.visit(body_stmt)], orelse=[self.visit(else_stmt)]), node)
            return new
        return None

    def visit_Expr(self, node):
        self.generic_visit(node)
        if isinstance(node.value, ast.Constant):
            return node
        return self._nested_split(node) or node

    def visit_Assign(self, node):
        self.generic_visit(node)
        if self.depth and not isinstance(node.value, ast.IfExp):
            r = self._nested_split(node)
            if r is not None:
                return r
        if self.depth and isinstance(node.value, ast.IfExp) and len(node.targets) == 1 and isinstance(node.targets[0], ast.Name):
            return self._split(node, lambda val: ast.Assign(targets=[A.clone(node.targets[0])], value=val, type_comment=None))
        return node

    def visit_Return(self, node):
        self.generic_visit(node)
        if self.depth and isinstance(node.value, ast.IfExp):
            return self._split(node, lambda val: ast.Return(value=val))
        return node


class Module:
    def __init__(self, name, path, relpath, text, defer=False):
        self.name = name
        self.path = path
        self.relpath = relpath
        self.text = text
        self.sha256 = hashlib.sha256(text.encode("utf8")).hexdigest()
        try:
            self.tree = ast.parse(text, filename=path)
        except SyntaxError as e:
            raise AnalysisError("cannot parse %s: %s" % (relpath, e))
        self.imports = {}      # local alias -> dotted target ("rpyc.core.consts", "rpyc.lib.get_id_pack")
        self.toplevel = {}     # name -> list of value-expression nodes assigned at module level (in order)
        if not defer:
            self.finish()

    def finish(self):
        """normalisation passes + indexing (after package-wide renames, if any, were undone)"""
        _LowerIfExp().visit(self.tree)
        A.set_parents(self.tree)
        for n in ast.walk(self.tree):
            n._module = self
        self._index()

    def _index(self):
        pkg = self.name.rsplit(".", 1)[0] if not self.relpath.endswith("__init__.py") else self.name
        for st in self.all_toplevel_statements():
            if isinstance(st, ast.Import):
                for al in st.names:
                    self.imports[al.asname or al.name.split(".")[0]] = al.name if al.asname else al.name.split(".")[0]
            elif isinstance(st, ast.ImportFrom):
                base = st.module or ""
                if st.level:
                    parts = pkg.split(".")
                    parts = parts[:len(parts) - (st.level - 1)]
                    base = ".".join(parts + ([st.module] if st.module else []))
                for al in st.names:
                    self.imports[al.asname or al.name] = base + "." + al.name
            elif isinstance(st, ast.Assign):
                for t in st.targets:
                    if isinstance(t, ast.Name):
                        self.toplevel.setdefault(t.id, []).append(st.value)
                    elif isinstance(t, (ast.Tuple, ast.List)) and isinstance(st.value, (ast.Tuple, ast.List)) \
                            and len(t.elts) == len(st.value.elts):
                        for te, ve in zip(t.elts, st.value.elts):
                            if isinstance(te, ast.Name):
                                self.toplevel.setdefault(te.id, []).append(ve)
            elif isinstance(st, ast.AnnAssign) and isinstance(st.target, ast.Name) and st.value is not None:
                self.toplevel.setdefault(st.target.id, []).append(st.value)

    def all_toplevel_statements(self):
        """module-level statements, looking through top-level if/try (platform/compat switches)"""
        out = []

        def rec(body):
            for st in body:
                out.append(st)
                if isinstance(st, ast.If):
                    rec(st.body)
                    rec(st.orelse)
                elif isinstance(st, ast.Try):
                    rec(st.body)
                    for h in st.handlers:
                        rec(h.body)
                    rec(st.orelse)
                    rec(st.finalbody)
        rec(self.tree.body)
        return out


class Func:
    def __init__(self, qual, node, module, cls=None, parent=None):
        self.qual = qual
        self.node = node
        self.module = module
        self.cls = cls          # Class or None
        self.parent = parent    # enclosing Func or None
        self.nested = []        # nested Func objects in source order
        self.name = node.name if hasattr(node, "name") else "<lambda>"

    @property
    def loc(self):
        return "%s:%d" % (self.module.relpath, self.node.lineno)

    def __repr__(self):
        return "<Func %s>" % self.qual


class Class:
    def __init__(self, qual, node, module):
        self.qual = qual
        self.node = node
        self.module = module
        self.name = node.name
        self.methods = {}   # name -> Func (last definition wins)
        self.attrs = {}     # class-level name -> value expr
        self.base_names = [A.dotted(b) or A.src(b) for b in node.bases]
        self.bases = []     # resolved Class objects

    def __repr__(self):
        return "<Class %s>" % self.qual


def _splice_starred_displays(fn):
    """f(*(a, b), c) == f(a, b, c): a starred tuple/list display among the positional arguments is spliced in"""
    n_done = 0
    for n in ast.walk(fn):
        if isinstance(n, ast.Call) and any(isinstance(a, ast.Starred) and isinstance(a.value, (ast.Tuple, ast.List)) and
                                           not any(isinstance(e, ast.Starred) for e in a.value.elts) for a in n.args):
            out = []
            for a in n.args:
                if isinstance(a, ast.Starred) and isinstance(a.value, (ast.Tuple, ast.List)) and \
                        not any(isinstance(e, ast.Starred) for e in a.value.elts):
                    out.extend(a.value.elts)
                else:
                    out.append(a)
            n.args = out
            n_done += 1
    return n_done


def _with_from_acquire(fn):
    """`E.acquire(); try: BODY finally: E.release()` (E a plain name / attribute chain, no arguments) is rewritten to
    `with E: BODY` - the definition of the with statement for locks and conditions. Returns the number of rewrites."""
    n_done = 0

    def pure(e):
        while isinstance(e, ast.Attribute):
            e = e.value
        return isinstance(e, ast.Name)

    def call_on(st, meth):
        if isinstance(st, ast.Expr) and isinstance(st.value, ast.Call) and isinstance(st.value.func, ast.Attribute) and \
                st.value.func.attr == meth and not st.value.args and not st.value.keywords and pure(st.value.func.value):
            return ast.dump(st.value.func.value)
        return None
    for node in ast.walk(fn):
        for fld in ("body", "orelse", "finalbody"):
            body = getattr(node, fld, None)
            if not isinstance(body, list):
                continue
            i = 0
            while i + 1 < len(body):
                a, t = body[i], body[i + 1]
                k = call_on(a, "acquire")
                if k and isinstance(t, ast.Try) and not t.handlers and not t.orelse and len(t.finalbody) == 1 and \
                        call_on(t.finalbody[0], "release") == k:
                    w = ast.With(items=[ast.withitem(context_expr=a.value.func.value, optional_vars=None)], body=t.body)
                    ast.copy_location(w, a)
                    body[i:i + 2] = [w]
                    n_done += 1
                i += 1
    return n_done


def _split_tuple_assign(fn):
    """`a, b = x, y` with plain right-hand sides (names, constants, attribute chains) none of which is one of the targets or a
    prefix of one is `a = x; b = y`: the values are read first - nothing in between can change them - and the stores happen left
    to right. Returns the number of rewrites."""
    n_done = 0

    def pure(e):
        if isinstance(e, ast.Constant):
            return True
        while isinstance(e, ast.Attribute):
            e = e.value
        return isinstance(e, ast.Name)
    for node in ast.walk(fn):
        for fld in ("body", "orelse", "finalbody"):
            body = getattr(node, fld, None)
            if not isinstance(body, list):
                continue
            i = 0
            while i < len(body):
                st = body[i]
                if isinstance(st, ast.Assign) and len(st.targets) == 1 and isinstance(st.targets[0], ast.Tuple) and \
                        isinstance(st.value, ast.Tuple) and len(st.value.elts) == len(st.targets[0].elts) and \
                        all(pure(v) for v in st.value.elts) and all(pure(t) and not isinstance(t, ast.Constant) for t in st.targets[0].elts):
                    tsrc = [ast.unparse(t) for t in st.targets[0].elts]
                    vsrc = [ast.unparse(v) for v in st.value.elts if not isinstance(v, ast.Constant)]
                    clash = any(v == t or v.startswith(t + ".") or t.startswith(v + ".") for v in vsrc for t in tsrc) or \
                        any(a != b and (a.startswith(b + ".") or b.startswith(a + ".")) for a in tsrc for b in tsrc) or len(set(tsrc)) != len(tsrc)
                    # (an attribute store on `self` may run a property setter / __setattr__ that reads another target: the
                    # classes of this package that use such stores define neither - left as is when the base is not a plain name)
                    if not clash:
                        new = []
                        for t, v in zip(st.targets[0].elts, st.value.elts):
                            a = ast.Assign(targets=[t], value=v)
                            ast.copy_location(a, st)
                            new.append(a)
                        body[i:i + 1] = new
                        n_done += 1
                        i += len(new)
                        continue
                i += 1
    return n_done


def _with_closing_self(fn):
    """`with closing(self): BODY` (contextlib.closing, no `as`) is `try: BODY finally: self.close()`."""
    n_done = 0
    for node in ast.walk(fn):
        for fld in ("body", "orelse", "finalbody"):
            body = getattr(node, fld, None)
            if not isinstance(body, list):
                continue
            for i, st in enumerate(body):
                if isinstance(st, ast.With) and len(st.items) == 1 and st.items[0].optional_vars is None:
                    c = st.items[0].context_expr
                    if isinstance(c, ast.Call) and not c.keywords and len(c.args) == 1 and isinstance(c.args[0], ast.Name) and \
                            c.args[0].id == "self" and ((isinstance(c.func, ast.Name) and c.func.id == "closing") or (
                                isinstance(c.func, ast.Attribute) and c.func.attr == "closing" and isinstance(c.func.value, ast.Name)
                                and c.func.value.id == "contextlib")):
                        call = ast.Expr(value=ast.Call(func=ast.Attribute(value=ast.Name(id="self", ctx=ast.Load()), attr="close",
                                                                          ctx=ast.Load()), args=[], keywords=[]))
                        t = ast.Try(body=st.body, handlers=[], orelse=[], finalbody=[call])
                        ast.copy_location(t, st)
                        ast.copy_location(call, st)
                        ast.fix_missing_locations(t)
                        body[i] = t
                        n_done += 1
    return n_done


def _merge_destructuring(fn):
    """`t, a, b = X` immediately followed by `m, c = t`, with `t` used nowhere else in the function, is the nested form
    `(m, c), a, b = X` (only locals are bound in between; a malformed value fails in the same statement pair either way)."""
    n_done = 0
    counts = {}
    for x in ast.walk(fn):
        if isinstance(x, ast.Name):
            counts[x.id] = counts.get(x.id, 0) + 1
    for node in ast.walk(fn):
        for fld in ("body", "orelse", "finalbody"):
            body = getattr(node, fld, None)
            if not isinstance(body, list):
                continue
            i = 0
            while i + 1 < len(body):
                a, b = body[i], body[i + 1]
                if isinstance(a, ast.Assign) and len(a.targets) == 1 and isinstance(a.targets[0], ast.Tuple) and \
                        isinstance(b, ast.Assign) and len(b.targets) == 1 and isinstance(b.targets[0], ast.Tuple) and \
                        isinstance(b.value, ast.Name) and counts.get(b.value.id) == 2 and \
                        not any(isinstance(e_, ast.Starred) for e_ in a.targets[0].elts + b.targets[0].elts):
                    idx = [k for k, e_ in enumerate(a.targets[0].elts) if isinstance(e_, ast.Name) and e_.id == b.value.id]
                    if len(idx) == 1 and all(isinstance(e_, ast.Name) for e_ in b.targets[0].elts):
                        a.targets[0].elts[idx[0]] = ast.copy_location(ast.Tuple(elts=b.targets[0].elts, ctx=ast.Store()), a.targets[0])
                        del body[i + 1]
                        n_done += 1
                        continue
                i += 1
    return n_done


def _tail_duplicate_return(fn, known):
    """a function body that ends `if C: A else: B` + `return E`, E built from plain names of which at least one is a NEW local
    (not in the reference tree) assigned in the branches, is the same function with the return at the end of each branch
    (tail duplication - always behaviour-preserving); the temporaries then fold into the returns."""
    body = fn.body
    if len(body) < 2 or not isinstance(body[-1], ast.Return) or not isinstance(body[-2], ast.If) or body[-1].value is None:
        return 0
    ret = body[-1]
    v = ret.value
    elts = v.elts if isinstance(v, ast.Tuple) else [v]
    if not all(isinstance(e, (ast.Name, ast.Constant)) for e in elts):
        return 0
    names = {e.id for e in elts if isinstance(e, ast.Name)}
    new_names = {n for n in names if n not in known}
    stored = {x.id for x in ast.walk(body[-2]) if isinstance(x, ast.Name) and isinstance(x.ctx, ast.Store)}
    if not (new_names & stored):
        return 0

    def ends(stmts):
        return bool(stmts) and isinstance(stmts[-1], (ast.Return, ast.Raise, ast.Continue, ast.Break))

    def push(stmts):
        if ends(stmts):
            return
        if stmts and isinstance(stmts[-1], ast.If):
            push(stmts[-1].body)
            if stmts[-1].orelse:
                push(stmts[-1].orelse)
            else:
                stmts[-1].orelse = [copy.deepcopy(ret)]
            return
        stmts.append(copy.deepcopy(ret))
        # the block now ends in its own return: a name it binds itself (first occurrence is a plain store) is private to the
        # block - give it a name of its own, so that it is a single-assignment temporary of the function
        for nm in sorted(names):
            for i, st in enumerate(stmts):
                occ = [x for x in ast.walk(st) if isinstance(x, ast.Name) and x.id == nm]
                if not occ:
                    continue
                if isinstance(st, ast.Assign) and len(st.targets) == 1 and isinstance(st.targets[0], ast.Name) and \
                        st.targets[0].id == nm and not any(isinstance(x, ast.Name) and x.id == nm for x in ast.walk(st.value)):
                    counter[0] += 1
                    for st2 in stmts[i:]:
                        for x in ast.walk(st2):
                            if isinstance(x, ast.Name) and x.id == nm:
                                x.id = "%s__t%d" % (nm, counter[0])
                break
    counter = [0]
    del body[-1]
    push(body)
    ast.fix_missing_locations(fn)
    return 1


def _copy_propagate(fn):
    """`x = y` between two locals that are each bound exactly once (y possibly a parameter that is never re-bound): x is another
    name for the same value - every use of x reads y and the copy disappears."""
    n_done = 0
    params = {a.arg for a in fn.args.posonlyargs + fn.args.args + fn.args.kwonlyargs}
    if fn.args.vararg:
        params.add(fn.args.vararg.arg)
    if fn.args.kwarg:
        params.add(fn.args.kwarg.arg)
    stores = {}
    for x in ast.walk(fn):
        if isinstance(x, ast.Name) and isinstance(x.ctx, (ast.Store, ast.Del)):
            stores[x.id] = stores.get(x.id, 0) + 1
        elif isinstance(x, ast.ExceptHandler) and x.name:
            stores[x.name] = stores.get(x.name, 0) + 2
        elif isinstance(x, (ast.Global, ast.Nonlocal)):
            for nm in x.names:
                stores[nm] = stores.get(nm, 0) + 2
    for node in ast.walk(fn):
        for fld in ("body", "orelse", "finalbody"):
            body = getattr(node, fld, None)
            if not isinstance(body, list):
                continue
            for st in list(body):
                if isinstance(st, ast.Assign) and len(st.targets) == 1 and isinstance(st.targets[0], ast.Name) and \
                        isinstance(st.value, ast.Name) and st.targets[0].id != st.value.id:
                    x, y = st.targets[0].id, st.value.id
                    y_once = (stores.get(y, 0) == 1 and y not in params) or (y in params and stores.get(y, 0) == 0)
                    if stores.get(x, 0) == 1 and x not in params and y_once and len(body) > 1:
                        for z in ast.walk(fn):
                            if isinstance(z, ast.Name) and z.id == x and isinstance(z.ctx, ast.Load):
                                z.id = y
                        body.remove(st)
                        n_done += 1
    return n_done


class _GetattrConst(ast.NodeTransformer):
    """`getattr(X, "name")` with a literal identifier is `X.name`"""
    n = 0

    def visit_Call(self, node):
        self.generic_visit(node)
        if isinstance(node.func, ast.Name) and node.func.id == "getattr" and len(node.args) == 2 and not node.keywords and \
                isinstance(node.args[1], ast.Constant) and isinstance(node.args[1].value, str) and node.args[1].value.isidentifier() \
                and not node.args[1].value.startswith("__"):
            self.n += 1
            return ast.copy_location(ast.Attribute(value=node.args[0], attr=node.args[1].value, ctx=ast.Load()), node)
        return node


def _getattr_const(fn):
    t = _GetattrConst()
    for i, st in enumerate(list(fn.body)):
        fn.body[i] = t.visit(st)
    if t.n:
        ast.fix_missing_locations(fn)
    return t.n


def _bool_valued(e):
    return isinstance(e, ast.Compare) or (isinstance(e, ast.UnaryOp) and isinstance(e.op, ast.Not)) or (
        isinstance(e, ast.Call) and isinstance(e.func, ast.Name) and e.func.id in ("isinstance", "issubclass", "callable", "hasattr")) or (
        isinstance(e, ast.Constant) and isinstance(e.value, bool))


def _lower_bool_return(fn):
    """`return T and REST` with a bool-valued first operand T (a comparison, `not ..`, isinstance(..)) is
    `if T: return REST` / `return False`; `return T or REST` is `if T: return True` / `return REST` (T's value is exactly
    True/False, so nothing but the control flow is spelled differently)."""
    n_done = 0
    for node in ast.walk(fn):
        for fld in ("body", "orelse", "finalbody"):
            body = getattr(node, fld, None)
            if not isinstance(body, list):
                continue
            i = 0
            while i < len(body):
                st = body[i]
                if isinstance(st, ast.Return) and isinstance(st.value, ast.BoolOp) and len(st.value.values) >= 2 and \
                        _bool_valued(st.value.values[0]):
                    first, rest = st.value.values[0], st.value.values[1:]
                    restv = rest[0] if len(rest) == 1 else ast.BoolOp(op=st.value.op, values=rest)
                    if isinstance(st.value.op, ast.And):
                        new = [ast.If(test=first, body=[ast.Return(value=restv)], orelse=[]), ast.Return(value=ast.Constant(value=False))]
                    else:
                        new = [ast.If(test=first, body=[ast.Return(value=ast.Constant(value=True))], orelse=[]), ast.Return(value=restv)]
                    for x in new:
                        ast.copy_location(x, st)
                        ast.fix_missing_locations(x)
                    body[i:i + 1] = new
                    n_done += 1
                    continue      # the inner return may lower again
                i += 1
    return n_done


def _to_augassign(fn):
    """`T = T + E` / `T = T - E` with T a plain name or attribute chain is `T += E` / `T -= E` only when E is an int constant or a
    len() call (for numbers the two are the same operation; for lists `+=` would be in-place - not rewritten)."""
    n_done = 0
    for node in ast.walk(fn):
        for fld in ("body", "orelse", "finalbody"):
            body = getattr(node, fld, None)
            if not isinstance(body, list):
                continue
            for i, st in enumerate(body):
                if isinstance(st, ast.Assign) and len(st.targets) == 1 and isinstance(st.value, ast.BinOp) and \
                        isinstance(st.value.op, (ast.Add, ast.Sub)) and isinstance(st.targets[0], (ast.Name, ast.Attribute)) and \
                        ast.unparse(st.targets[0]) == ast.unparse(st.value.left):
                    e = st.value.right
                    if (isinstance(e, ast.Constant) and isinstance(e.value, int) and not isinstance(e.value, bool)) or (
                            isinstance(e, ast.Call) and isinstance(e.func, ast.Name) and e.func.id == "len"):
                        new = ast.AugAssign(target=st.targets[0], op=st.value.op, value=e)
                        body[i] = ast.copy_location(new, st)
                        n_done += 1
    return n_done


def _while_guard(fn):
    """`while True:` whose first statement is `if not C: break` (no else) is `while C:` over the remaining statements (a
    `continue` re-evaluates C at the top of the loop either way)."""
    n_done = 0
    for node in ast.walk(fn):
        if isinstance(node, ast.While) and not node.orelse and isinstance(node.test, ast.Constant) and node.test.value is True and \
                len(node.body) >= 2 and isinstance(node.body[0], ast.If) and not node.body[0].orelse and \
                len(node.body[0].body) == 1 and isinstance(node.body[0].body[0], ast.Break):
            t = node.body[0].test
            node.test = t.operand if isinstance(t, ast.UnaryOp) and isinstance(t.op, ast.Not) else \
                ast.copy_location(ast.UnaryOp(op=ast.Not(), operand=t), t)
            del node.body[0]
            n_done += 1
    return n_done


def _with_suppress(fn):
    """`with contextlib.suppress(E1, E2): BODY` is `try: BODY except (E1, E2): pass` (the documented equivalence; only for the
    single-item form without `as`). Returns the number of rewrites."""
    n_done = 0
    for node in ast.walk(fn):
        for fld in ("body", "orelse", "finalbody"):
            body = getattr(node, fld, None)
            if not isinstance(body, list):
                continue
            for i, st in enumerate(body):
                if isinstance(st, ast.With) and len(st.items) == 1 and st.items[0].optional_vars is None:
                    c = st.items[0].context_expr
                    if isinstance(c, ast.Call) and not c.keywords and c.args and not any(isinstance(a, ast.Starred) for a in c.args) and (
                            (isinstance(c.func, ast.Attribute) and c.func.attr == "suppress" and isinstance(c.func.value, ast.Name)
                             and c.func.value.id == "contextlib") or (isinstance(c.func, ast.Name) and c.func.id == "suppress")):
                        typ = c.args[0] if len(c.args) == 1 else ast.Tuple(elts=list(c.args), ctx=ast.Load())
                        h = ast.ExceptHandler(type=typ, name=None, body=[ast.Pass()])
                        t = ast.Try(body=st.body, handlers=[h], orelse=[], finalbody=[])
                        ast.copy_location(t, st)
                        ast.copy_location(h, st)
                        ast.copy_location(h.body[0], st)
                        ast.fix_missing_locations(t)
                        body[i] = t
                        n_done += 1
    return n_done


class Repo:
    def __init__(self, root=None, package="rpyc", overrides=None, inline=True):
        self.root = os.path.abspath(root or os.environ.get("VERIF_REPO", "/repo"))
        self.package = package
        self.overrides = overrides or {}
        self.modules = {}
        self.funcs = {}
        self.classes = {}
        pkgdir = os.path.join(self.root, package)
        if not os.path.isdir(pkgdir):
            raise AnalysisError("package directory %s not found" % pkgdir)
        for dirpath, dirnames, filenames in os.walk(pkgdir):
            dirnames[:] = sorted(d for d in dirnames if d != "__pycache__")
            for fn in sorted(filenames):
                if not fn.endswith(".py"):
                    continue
                path = os.path.join(dirpath, fn)
                rel = os.path.relpath(path, self.root)
                modname = rel[:-3].replace(os.sep, ".")
                if modname.endswith(".__init__"):
                    modname = modname[:-9]
                if rel in self.overrides:
                    text = self.overrides[rel]
                else:
                    with open(path, encoding="utf8") as f:
                        text = f.read()
                self.modules[modname] = Module(modname, path, rel, text, defer=inline)
        self.renamed = []
        self.unrolled = 0
        if inline:
            from . import unroll as UR
            from . import ntuple as NT
            for m in self.modules.values():
                self.unrolled += UR.normalise(m.tree)
                self.unrolled += NT.normalise(m.tree)
            from . import renames as RN
            self.renamed = RN.normalise({n: m.tree for n, m in self.modules.items()})
            for m in self.modules.values():
                m.finish()
        self._index_all()
        self.inlined = []
        self.opaque_callers = {}
        self.folded_temps = 0
        self.callforms = 0
        if inline:
            from . import callforms as CF
            kcf = CF.load_known()
            if kcf is not None:
                self.callforms = CF.normalise(self, kcf)
                if self.callforms:
                    for m in self.modules.values():
                        ast.fix_missing_locations(m.tree)
                        A.set_parents(m.tree)
                        for n in ast.walk(m.tree):
                            if not hasattr(n, "_module"):
                                n._module = m
        if inline:
            self._fold_temps()
        if inline:
            from . import inline as INL
            known = INL.load_known()
            if known is not None:
                inl = INL.Inliner(self, known)
                dissolved = inl.run()
                self.opaque_callers = {k: sorted(v) for k, v in inl.opaque.items()}
                for q in inl.new_complex:
                    self.opaque_callers.setdefault(q, []).append(q)
                if inl.inlined_sites:
                    for q in dissolved:
                        f = self.funcs[q]
                        self._remove_def(f)
                    self.inlined = sorted(inl.inlined_sites)
                    for m in self.modules.values():
                        A.set_parents(m.tree)
                        for n in ast.walk(m.tree):
                            if not hasattr(n, "_module"):
                                n._module = m
                    self._index_all()
                    self._fold_temps()      # temporaries introduced for the inlined helpers' parameters
        self.drifted = self._signature_drift() if inline else {}

    def _signature_drift(self):
        """{qual: (reference parameter list, current one)} for functions of the reference tree whose parameters were reordered,
        added or removed (a pure rename at the same position is not drift). Rules that read such a function's parameters - or
        calls of it - positionally report "cannot decide" instead of a verdict (sa/main.py)."""
        import json
        ref = os.path.join(os.path.dirname(os.path.abspath(__file__)), "ref", "known_signatures.json")
        try:
            with open(ref) as fh:
                known = json.load(fh)
        except (OSError, ValueError):
            return {}
        out = {}
        for q, f in self.funcs.items():
            if q not in known:
                continue
            a = f.node.args
            now = [x.arg for x in a.posonlyargs + a.args] + (["*" + a.vararg.arg] if a.vararg else []) + \
                [x.arg for x in a.kwonlyargs] + (["**" + a.kwarg.arg] if a.kwarg else [])
            was = known[q]
            if now == was:
                continue
            if len(now) == len(was) and all(x == y or (x not in was and y not in now) for x, y in zip(now, was)):
                continue        # renamed in place
            if len(now) < len(was):
                continue        # a parameter was REMOVED: not a re-arrangement of the same interface - judged as written
            if all(x == y or (x not in was and y not in now) for x, y in zip(now[:len(was)], was)):
                continue        # parameters were only APPENDED: the positions the rules read are unchanged
            out[q] = (was, now)
        return out

    def _fold_temps(self):
        from . import tempinline as TI
        kl = TI.load_known()
        if kl is None:
            return
        touched = set()
        stable = self._stable_attrs()
        for q, f in list(self.funcs.items()):
            owner = f
            while owner is not None and owner.cls is None:
                owner = owner.parent
            n = _tail_duplicate_return(f.node, kl.get(q, set()))
            n += _to_augassign(f.node)
            n += _while_guard(f.node)
            n += TI.fold_aliases(f.node, kl.get(q, set()), stable.get(owner.cls.qual, set()) if owner is not None else set())
            n += TI.normalise_function(f.node, kl.get(q, set()))
            n += _with_from_acquire(f.node)
            n += _with_suppress(f.node)
            n += _lower_bool_return(f.node)
            n += _getattr_const(f.node)
            n += _copy_propagate(f.node)
            n += _merge_destructuring(f.node)
            n += _with_closing_self(f.node)
            n += _split_tuple_assign(f.node)
            n += _splice_starred_displays(f.node)
            if owner is not None:
                n += self._with_self_to_finally(f.node, owner.cls)
            if n:
                self.folded_temps += n
                touched.add(f.module.name)
        for mn in touched:
            m = self.modules[mn]
            ast.fix_missing_locations(m.tree)
            A.set_parents(m.tree)
            for n in ast.walk(m.tree):
                if not hasattr(n, "_module"):
                    n._module = m

    def _with_self_to_finally(self, fn, cls):
        """`with self: BODY` inside a method of a class whose __enter__ just returns self and whose __exit__ is the single call
        `self.m()` (and no subclass in the package overrides either) is `try: BODY finally: self.m()`"""
        ent = ext = None
        for c in self.mro(cls):
            ent = ent or c.methods.get("__enter__")
            ext = ext or c.methods.get("__exit__")
        if ent is None or ext is None:
            return 0
        if any("__enter__" in sc.methods or "__exit__" in sc.methods for sc in self.subclasses(cls) if sc is not cls):
            return 0

        def body_of(f_):
            return [st for st in f_.node.body if not (isinstance(st, ast.Expr) and isinstance(st.value, ast.Constant))]
        eb, xb = body_of(ent), body_of(ext)
        rcv_e, rcv_x = A.params(ent.node)[0], A.params(ext.node)[0]
        if not (len(eb) == 1 and isinstance(eb[0], ast.Return) and isinstance(eb[0].value, ast.Name) and eb[0].value.id == rcv_e):
            return 0
        if not (len(xb) == 1 and isinstance(xb[0], ast.Expr) and isinstance(xb[0].value, ast.Call) and
                isinstance(xb[0].value.func, ast.Attribute) and isinstance(xb[0].value.func.value, ast.Name) and
                xb[0].value.func.value.id == rcv_x and not xb[0].value.args and not xb[0].value.keywords):
            return 0
        meth = xb[0].value.func.attr
        prm = A.params(fn)
        if not prm:
            return 0
        rcv = prm[0]
        n_done = 0
        for node in ast.walk(fn):
            for fld in ("body", "orelse", "finalbody"):
                body = getattr(node, fld, None)
                if not isinstance(body, list):
                    continue
                for i, st in enumerate(body):
                    if isinstance(st, ast.With) and len(st.items) == 1 and st.items[0].optional_vars is None and \
                            isinstance(st.items[0].context_expr, ast.Name) and st.items[0].context_expr.id == rcv:
                        call = ast.Expr(value=ast.Call(func=ast.Attribute(value=ast.Name(id=rcv, ctx=ast.Load()), attr=meth,
                                                                          ctx=ast.Load()), args=[], keywords=[]))
                        t = ast.Try(body=st.body, handlers=[], orelse=[], finalbody=[call])
                        ast.copy_location(t, st)
                        ast.copy_location(call, st)
                        ast.fix_missing_locations(t)
                        body[i] = t
                        n_done += 1
        return n_done

    def _stable_attrs(self):
        """per class: names of methods, and of instance fields that are bound in __init__ only (never rebound anywhere in the
        package through any receiver)"""
        rebound = set()
        for m in self.modules.values():
            for n in ast.walk(m.tree):
                tg = []
                if isinstance(n, ast.Assign):
                    tg = n.targets
                elif isinstance(n, (ast.AugAssign, ast.AnnAssign)):
                    tg = [n.target]
                elif isinstance(n, ast.Delete):
                    tg = n.targets
                for t in tg:
                    for x in ast.walk(t):
                        if isinstance(x, ast.Attribute) and isinstance(x.ctx, (ast.Store, ast.Del)):
                            fn = A.enclosing(x, ast.FunctionDef)
                            if fn is None or fn.name != "__init__":
                                rebound.add(x.attr)
        out = {}
        for q, c in self.classes.items():
            names = set()
            for k in self.mro(c):
                names |= {mn for mn in k.methods if mn not in rebound}
                init = k.methods.get("__init__")
                if init is not None:
                    for n in ast.walk(init.node):
                        if isinstance(n, ast.Attribute) and isinstance(n.ctx, ast.Store) and n.attr not in rebound:
                            names.add(n.attr)
            out[q] = names
        return out

    def _remove_def(self, f):
        node = f.node
        par = getattr(node, "_parent", None)
        for fld in ("body", "orelse", "finalbody"):
            lst = getattr(par, fld, None)
            if isinstance(lst, list) and node in lst:
                lst.remove(node)
                if not lst:
                    lst.append(ast.Pass())
                return

    def _index_all(self):
        self.funcs = {}
        self.classes = {}
        for m in self.modules.values():
            self._index_scope(m, m.tree.body, m.name, None, None, toplevel=True)
        for c in self.classes.values():
            for bn in c.base_names:
                bc = self.resolve_class(c.module, bn)
                if bc is not None:
                    c.bases.append(bc)

    # ------------------------------------------------------------------ indexing
    def _index_scope(self, mod, body, prefix, cls, parent, toplevel=False):
        for st in self._flatten(body):
            if isinstance(st, (ast.FunctionDef, ast.AsyncFunctionDef)):
                qual = prefix + "." + st.name
                if parent is not None:
                    k = sum(1 for f in parent.nested if f.name == st.name)
                    if k:
                        qual += "#%d" % (k + 1)
                f = Func(qual, st, mod, cls, parent)
                st._func = f
                self.funcs[qual] = f
                if cls is not None and parent is None:
                    cls.methods[st.name] = f
                if parent is not None:
                    parent.nested.append(f)
                self._index_scope(mod, st.body, qual, None, f)
            elif isinstance(st, ast.ClassDef):
                qual = prefix + "." + st.name
                c = Class(qual, st, mod)
                st._class = c
                self.classes[qual] = c
                for s2 in self._flatten(st.body):
                    if isinstance(s2, ast.Assign):
                        for t in s2.targets:
                            if isinstance(t, ast.Name):
                                c.attrs[t.id] = s2.value
                self._index_scope(mod, st.body, qual, c, None)

    @staticmethod
    def _flatten(body):
        out = []
        for st in body:
            out.append(st)
            if isinstance(st, ast.If):
                out.extend(Repo._flatten(st.body))
                out.extend(Repo._flatten(st.orelse))
            elif isinstance(st, ast.Try):
                out.extend(Repo._flatten(st.body))
                for h in st.handlers:
                    out.extend(Repo._flatten(h.body))
                out.extend(Repo._flatten(st.orelse))
                out.extend(Repo._flatten(st.finalbody))
            elif isinstance(st, (ast.With, ast.For, ast.While)):
                out.extend(Repo._flatten(st.body))
        return out

    # ------------------------------------------------------------------ lookup (fail closed)
    def module(self, name):
        m = self.modules.get(name)
        if m is None:
            raise AnalysisError("anchor module %s not found" % name)
        return m

    def func(self, qual):
        f = self.funcs.get(qual)
        if f is None:
            raise AnalysisError("anchor function %s not found" % qual)
        return f

    def cls(self, qual):
        c = self.classes.get(qual)
        if c is None:
            raise AnalysisError("anchor class %s not found" % qual)
        return c

    def has_func(self, qual):
        return qual in self.funcs

    def resolve_name(self, mod, dotted_name):
        """Resolve a dotted name used in `mod` to ('module', Module) | ('class', Class) | ('func', Func)
        | ('value', Module, name) | None"""
        parts = dotted_name.split(".")
        head = parts[0]
        target = None
        if head in mod.imports:
            target = mod.imports[head].split(".") + parts[1:]
        else:
            target = mod.name.split(".") + parts
        # try progressively: longest module prefix
        for i in range(len(target), 0, -1):
            mname = ".".join(target[:i])
            if mname in self.modules:
                m = self.modules[mname]
                rest = target[i:]
                if not rest:
                    return ("module", m)
                q = mname + "." + ".".join(rest)
                if q in self.classes:
                    return ("class", self.classes[q])
                if q in self.funcs:
                    return ("func", self.funcs[q])
                if len(rest) == 1 and rest[0] in m.imports:
                    # re-exported name (rpyc.core exports Channel etc.)
                    return self.resolve_name(m, rest[0])
                if len(rest) >= 1 and rest[0] in m.toplevel:
                    return ("value", m, ".".join(rest))
                return None
        return None

    def resolve_class(self, mod, dotted_name):
        r = self.resolve_name(mod, dotted_name) if dotted_name else None
        if r and r[0] == "class":
            return r[1]
        return None

    def mro(self, cls):
        """linearised ancestors (DFS order, left to right, de-duplicated keeping the last occurrence
        like C3 would for the diamond shapes present in this package)"""
        order = []

        def rec(c):
            order.append(c)
            for b in c.bases:
                rec(b)
        rec(cls)
        seen = set()
        out = []
        for c in reversed(order):
            if c.qual not in seen:
                seen.add(c.qual)
                out.append(c)
        out.reverse()
        # keep cls first
        out.remove(cls)
        return [cls] + out

    def method(self, cls, name):
        for c in self.mro(cls):
            if name in c.methods:
                return c.methods[name]
        return None

    def subclasses(self, cls):
        out = []
        for c in self.classes.values():
            if c is not cls and cls in self.mro(c):
                out.append(c)
        return out

    def loc(self, node):
        return "%s:%d" % (node._module.relpath, getattr(node, "lineno", 0))

    def digests(self, names=None):
        return {m.relpath: m.sha256 for n, m in sorted(self.modules.items()) if names is None or n in names}

    def function_at(self, relpath, lineno):
        """qualname of the innermost function containing relpath:lineno"""
        best = None
        for q, f in self.funcs.items():
            if f.module.relpath != relpath:
                continue
            a, b = f.node.lineno, getattr(f.node, "end_lineno", f.node.lineno)
            if a <= lineno <= (b or a):
                if best is None or a >= best[1]:
                    best = (q, a)
        return best[0] if best else None

"""Normalisation: private members renamed relative to the reference tree are renamed back before the analyses run.

The rules name their anchors (Connection._send_raw, AsyncResult._ttl, ...). A refactoring that consistently renames a
*private* method, module-level function or instance field must not change any verdict, so:

* a private function/method of the reference tree (sa/ref/known_members.json) that is missing, while the same class/module
  has exactly one new function whose body is (nearly) the missing one's body, is taken to be that function renamed;
* a field that the reference `__init__` of a class assigned and that is missing, while exactly one new field is assigned
  the same initial value, is taken to be that field renamed.

The new name is replaced by the reference name throughout the package (definitions, attribute accesses, __slots__
strings). Anything ambiguous is left alone (the rules then report a vanished anchor, exit 2). The renames applied are
listed in the evidence."""
import ast
import difflib
import json
import os

from . import astutil as A

REF = os.path.join(os.path.dirname(os.path.abspath(__file__)), "ref", "known_members.json")
THRESHOLD = 0.72


def load_known():
    try:
        with open(REF) as f:
            return json.load(f)
    except OSError:
        return None


def body_text(fn, own_name=None):
    """normalised source of a function body (docstring dropped, own name neutralised)"""
    body = [s for s in fn.body if not (isinstance(s, ast.Expr) and isinstance(s.value, ast.Constant) and isinstance(s.value.value, str))]
    args = ast.unparse(fn.args)
    txt = "(%s)\n" % args + "\n".join(ast.unparse(s) for s in body)
    if own_name:
        txt = txt.replace(own_name, "<own>")
    return txt


def init_fields(cls_node):
    """[(field, rhs source)] assigned on the receiver in __init__, in order of first assignment"""
    out = []
    seen = set()
    for st in cls_node.body:
        if isinstance(st, ast.FunctionDef) and st.name == "__init__" and st.args.args:
            rcv = st.args.args[0].arg
            for n in ast.walk(st):
                if isinstance(n, ast.Assign):
                    for t in n.targets:
                        if isinstance(t, ast.Attribute) and isinstance(t.value, ast.Name) and t.value.id == rcv and t.attr not in seen:
                            seen.add(t.attr)
                            out.append((t.attr, ast.unparse(n.value)))
    return out


def snapshot(modules):
    """reference description of a parsed package: {module: {"funcs": {name: body}, "classes": {cls: {"methods":..., "fields":...}}}}"""
    snap = {}
    for mname, tree in modules.items():
        ent = {"funcs": {}, "classes": {}}
        for st in _flatten(tree.body):
            if isinstance(st, ast.FunctionDef):
                ent["funcs"][st.name] = body_text(st, st.name)
            elif isinstance(st, ast.ClassDef):
                c = {"methods": {}, "fields": init_fields(st)}
                for s2 in _flatten(st.body):
                    if isinstance(s2, ast.FunctionDef):
                        c["methods"][s2.name] = body_text(s2, s2.name)
                ent["classes"][st.name] = c
        snap[mname] = ent
    return snap


def _flatten(body):
    out = []
    for st in body:
        if isinstance(st, (ast.If, ast.Try)):
            out.extend(_flatten(st.body))
            out.extend(_flatten(getattr(st, "orelse", [])))
            for h in getattr(st, "handlers", []):
                out.extend(_flatten(h.body))
        else:
            out.append(st)
    return out


def _private(name):
    return name.startswith("_") and not (name.startswith("__") and name.endswith("__"))


def _match(missing, new):
    """missing: {name: text}; new: {name: text} -> {new_name: old_name} for unambiguous best matches"""
    out = {}
    for old, otext in missing.items():
        scored = sorted(((difflib.SequenceMatcher(None, otext, ntext.replace(nn, "<own>")).ratio(), nn)
                         for nn, ntext in new.items()), reverse=True)
        if not scored or scored[0][0] < THRESHOLD:
            continue
        if len(scored) > 1 and scored[1][0] >= THRESHOLD and scored[0][0] - scored[1][0] < 0.1:
            continue
        out[scored[0][1]] = old
    # a new name claimed by two old names is ambiguous
    inv = {}
    for n, o in out.items():
        inv.setdefault(n, []).append(o)
    return {n: o[0] for n, o in inv.items() if len(o) == 1}


def _unrename(text, aren):
    for new_, old_ in aren.items():
        text = text.replace(new_, old_)
    return text


def detect(modules, ref):
    """(method/function renames {new: old}, field renames {new: old}) over the whole package"""
    cur = snapshot(modules)
    fren, aren = {}, {}
    all_cur_names = set()
    for ent in cur.values():
        all_cur_names |= set(ent["funcs"])
        for c in ent["classes"].values():
            all_cur_names |= set(c["methods"])
    for mname, rent in ref.items():
        cent = cur.get(mname)
        if cent is None:
            continue
        missing = {n: t for n, t in rent["funcs"].items() if _private(n) and n not in cent["funcs"]}
        new = {n: t for n, t in cent["funcs"].items() if n not in rent["funcs"]}
        if missing and new:
            fren.update(_match(missing, new))
        for cname, rc in rent["classes"].items():
            cc = cent["classes"].get(cname)
            if cc is None:
                continue
            missing = {n: t for n, t in rc["methods"].items() if _private(n) and n not in cc["methods"]}
            new = {n: t for n, t in cc["methods"].items() if n not in rc["methods"]}
            if missing and new:
                fren.update(_match(missing, new))
            rf = [tuple(x) for x in rc["fields"]]
            cf = [tuple(x) for x in cc["fields"]]
            miss_f = [(n, v) for n, v in rf if n not in {x for x, _ in cf} and _private(n)]
            new_f = [(n, v) for n, v in cf if n not in {x for x, _ in rf}]
            for n_old, v_old in miss_f:
                cands = [n for n, v in new_f if v == v_old]
                if len(cands) == 1 and len([1 for n2, v2 in miss_f if v2 == v_old]) == 1:
                    aren[cands[0]] = n_old
            # several fields with the same initial value (two `Lock()`s) renamed at once: when __init__ still assigns the same
            # sequence of initial values, the fields correspond position by position
            if len(rf) == len(cf) and [v for _, v in rf] == [_unrename(v, aren) for _, v in cf]:
                for (n_old, _), (n_new, _) in zip(rf, cf):
                    if n_old != n_new and _private(n_old) and n_old not in {x for x, _ in cf} and n_new not in {x for x, _ in rf}:
                        aren.setdefault(n_new, n_old)
    # never rename onto / from a name that is otherwise in use
    ref_names = set()
    for ent in ref.values():
        ref_names |= set(ent["funcs"])
        for c in ent["classes"].values():
            ref_names |= set(c["methods"]) | {n for n, _ in c["fields"]}
    fren = {n: o for n, o in fren.items() if n not in ref_names}
    aren = {n: o for n, o in aren.items() if n not in ref_names}
    return fren, aren


class _Apply(ast.NodeTransformer):
    def __init__(self, mapping):
        self.m = mapping

    def visit_FunctionDef(self, n):
        if n.name in self.m:
            n.name = self.m[n.name]
        self.generic_visit(n)
        return n

    def visit_Attribute(self, n):
        self.generic_visit(n)
        if n.attr in self.m:
            n.attr = self.m[n.attr]
        return n

    def visit_Name(self, n):
        if n.id in self.m:
            n.id = self.m[n.id]
        return n

    def visit_Constant(self, n):
        if isinstance(n.value, str) and n.value in self.m:
            n.value = self.m[n.value]
        return n


def normalise(modules):
    """modules: {module name: ast.Module} (modified in place); returns the list of renames applied"""
    ref = load_known()
    if ref is None:
        return []
    fren, aren = detect(modules, ref)
    mapping = dict(fren)
    mapping.update(aren)
    if not mapping:
        return []
    for tree in modules.values():
        _Apply(mapping).visit(tree)
    return sorted("%s -> %s" % (n, o) for n, o in mapping.items())

"""Normalisation: calls to functions of the package are put into one canonical argument form.

`self._access_attr(obj, name, (), overrider="_rpyc_getattr", param="allow_getattr", default=getattr)`,
`self._access_attr(obj, name, (), **_GETATTR_ACCESS)` (a module-level constant dict) and the all-positional call are the same
call. For every callee that can be resolved statically (a module-level function, possibly through an import; a method reached
through `self`/`cls` whose overrides - if any - have the same parameter names; a class of the package, i.e. its __init__) the
arguments are rewritten so that

  * a parameter that the REFERENCE tree passes by keyword somewhere (sa/ref/known_callforms.json: the gating switches of
    vinegar.dump/load, `_cleanup(_anyway=...)`, ...) is passed by keyword,
  * every other parameter is passed positionally, as far as the positional prefix is contiguous.

Arguments are only re-ordered when that cannot be observed: either the keywords already appear in parameter order, or every
argument is a plain name / constant / attribute chain. `**NAME` is expanded first when NAME is a module-level dict display
with constant string keys that nothing in the package stores into. Anything else is left as written."""
import ast
import copy
import json
import os

from . import astutil as A

REF = os.path.join(os.path.dirname(os.path.abspath(__file__)), "ref", "known_callforms.json")


def load_known():
    try:
        with open(REF) as f:
            return {k: set(v) for k, v in json.load(f).items()}
    except (OSError, ValueError):
        return None


def _pure(e):
    if isinstance(e, ast.Constant):
        return True
    while isinstance(e, ast.Attribute):
        e = e.value
    return isinstance(e, ast.Name)


def _signature(fn, drop_first):
    a = fn.args
    if a.posonlyargs:
        return None
    names = [x.arg for x in a.args]
    if drop_first:
        names = names[1:]
    return names, a.vararg is not None, a.kwarg is not None, [x.arg for x in a.kwonlyargs]


class Resolver:
    def __init__(self, repo):
        self.repo = repo

    def callee(self, caller, call):
        """(qual, param names, has *args, has **kw, kw-only names) or None"""
        fn = call.func
        repo = self.repo
        if isinstance(fn, ast.Attribute) and isinstance(fn.value, ast.Name) and fn.value.id in ("self", "cls"):
            owner = caller
            while owner is not None and owner.cls is None:
                owner = owner.parent
            if owner is None:
                return None
            prm0 = A.params(owner.node)
            if not prm0 or prm0[0] != fn.value.id:
                return None
            m = None
            for c in repo.mro(owner.cls):
                if fn.attr in c.methods:
                    m = c.methods[fn.attr]
                    break
            if m is None:
                return None
            static = any(A.dotted(d) == "staticmethod" for d in m.node.decorator_list)
            if any(A.dotted(d) == "property" for d in m.node.decorator_list):
                return None
            sig = _signature(m.node, not static)
            if sig is None:
                return None
            # every override visible in the package must agree on the parameter names
            for sc in repo.subclasses(owner.cls):
                o = sc.methods.get(fn.attr)
                if o is not None and _signature(o.node, not static) != sig:
                    return None
            return (m.qual,) + sig
        # self.<field>.m(...): the field is bound once, in __init__, to an instance of a class of the package
        if isinstance(fn, ast.Attribute) and isinstance(fn.value, ast.Attribute) and isinstance(fn.value.value, ast.Name) and \
                fn.value.value.id == "self":
            owner = caller
            while owner is not None and owner.cls is None:
                owner = owner.parent
            if owner is None:
                return None
            fld = fn.value.attr
            ctors = []
            for c in repo.mro(owner.cls):
                for m_ in c.methods.values():
                    for n in ast.walk(m_.node):
                        if isinstance(n, ast.Assign) and any(isinstance(t, ast.Attribute) and t.attr == fld and
                                                             isinstance(t.value, ast.Name) and t.value.id == "self" for t in n.targets):
                            ctors.append((m_.name, n.value))
            if len(ctors) != 1 or ctors[0][0] != "__init__" or not isinstance(ctors[0][1], ast.Call):
                return None
            k = repo.resolve_class(owner.module, A.dotted(ctors[0][1].func) or "")
            if k is None:
                return None
            m = None
            for c in repo.mro(k):
                if fn.attr in c.methods:
                    m = c.methods[fn.attr]
                    break
            if m is None or m.node.decorator_list or repo.subclasses(k):
                return None
            sig = _signature(m.node, True)
            return None if sig is None else (m.qual,) + sig
        d = A.dotted(fn)
        if d is None:
            return None
        # a local name shadows the module-level one
        if isinstance(fn, ast.Name) and any(isinstance(n, ast.Name) and n.id == fn.id and isinstance(n.ctx, ast.Store)
                                            for n in ast.walk(caller.node)):
            return None
        if isinstance(fn, ast.Name) and fn.id in A.params(caller.node):
            return None
        r = repo.resolve_name(caller.module, d)
        if not r:
            return None
        if r[0] == "func" and r[1].cls is None and r[1].parent is None:
            if any(not (isinstance(d_, ast.Call) and A.call_name(d_) == "register") for d_ in r[1].node.decorator_list):
                return None          # (brine's @register(table, key) returns the function unchanged)
            # several definitions of one name in a module (compat variants): only when they agree
            defs = [f for q, f in repo.funcs.items() if f.module is r[1].module and f.name == r[1].name and f.cls is None and f.parent is None]
            sigs = {json.dumps(_signature(f.node, False)) for f in defs}
            if len(sigs) != 1:
                return None
            sig = _signature(r[1].node, False)
            return None if sig is None else (r[1].qual,) + sig
        if r[0] == "class":
            init = None
            for c in repo.mro(r[1]):
                if "__init__" in c.methods:
                    init = c.methods["__init__"]
                    break
            if init is None or any("__new__" in c.methods for c in repo.mro(r[1])):
                return None
            if any("__init__" in sc.methods and _signature(sc.methods["__init__"].node, True) != _signature(init.node, True)
                   for sc in repo.subclasses(r[1])):
                pass
            sig = _signature(init.node, True)
            return None if sig is None else (init.qual,) + sig
        return None


def compute_known(repo):
    """{callee qual: [params passed by keyword at some call site]} for the tree as written"""
    res = Resolver(repo)
    out = {}
    for q, f in repo.funcs.items():
        for call in A.calls(f.node, into_scopes=False):
            c = res.callee(f, call)
            if c is None:
                continue
            for kw in call.keywords:
                if kw.arg is not None and kw.arg in c[1]:
                    out.setdefault(c[0], set()).add(kw.arg)
    return {k: sorted(v) for k, v in sorted(out.items())}


def _const_dicts(repo):
    """module -> {name: Dict node} for module-level dict displays with constant string keys that nobody stores into"""
    out = {}
    for m in repo.modules.values():
        cands = {}
        for st in m.tree.body:
            if isinstance(st, ast.Assign) and len(st.targets) == 1 and isinstance(st.targets[0], ast.Name):
                v = st.value
                if isinstance(v, ast.Call) and isinstance(v.func, ast.Name) and v.func.id == "dict" and not v.args and v.keywords and \
                        all(k.arg is not None for k in v.keywords):
                    v = ast.Dict(keys=[ast.Constant(value=k.arg) for k in v.keywords], values=[k.value for k in v.keywords])
                if isinstance(v, ast.Dict) and v.keys and all(
                        isinstance(k, ast.Constant) and isinstance(k.value, str) for k in v.keys) and all(_pure(x) for x in v.values):
                    cands[st.targets[0].id] = v
        if not cands:
            continue
        for n in ast.walk(m.tree):
            tg = []
            if isinstance(n, ast.Assign):
                tg = n.targets
            elif isinstance(n, (ast.AugAssign, ast.AnnAssign)):
                tg = [n.target]
            elif isinstance(n, ast.Delete):
                tg = n.targets
            for t in tg:
                b = t
                while isinstance(b, (ast.Subscript, ast.Attribute)):
                    b = b.value
                if b is not t and isinstance(b, ast.Name):
                    cands.pop(b.id, None)
            if isinstance(n, ast.Call) and isinstance(n.func, ast.Attribute) and isinstance(n.func.value, ast.Name) and \
                    n.func.attr in ("update", "pop", "clear", "setdefault", "popitem", "__setitem__"):
                cands.pop(n.func.value.id, None)
        # bound exactly once
        for name in list(cands):
            if sum(1 for n in ast.walk(m.tree) if isinstance(n, ast.Name) and n.id == name and isinstance(n.ctx, ast.Store)) != 1:
                cands.pop(name)
        out[m.name] = cands
    return out


def constant_tables(repo):
    """module name -> names of module-level dicts that are constant tables (string keys, plain values, never stored into)"""
    return {m: set(d) for m, d in _const_dicts(repo).items()}


def normalise(repo, known):
    res = Resolver(repo)
    cdicts = _const_dicts(repo)
    done = 0
    for q, f in list(repo.funcs.items()):
        for call in A.calls(f.node, into_scopes=False):
            if any(isinstance(a, ast.Starred) for a in call.args):
                continue
            # expand **CONST
            kws = []
            okx = True
            for kw in call.keywords:
                if kw.arg is not None:
                    kws.append(kw)
                    continue
                d = cdicts.get(f.module.name, {}).get(kw.value.id) if isinstance(kw.value, ast.Name) else None
                if d is None and isinstance(kw.value, ast.Dict) and all(
                        isinstance(k, ast.Constant) and isinstance(k.value, str) for k in kw.value.keys):
                    d = kw.value
                if d is None:
                    okx = False
                    break
                for k, v in zip(d.keys, d.values):
                    kws.append(ast.keyword(arg=k.value, value=copy.deepcopy(v)))
            if not okx or not kws and not call.args:
                continue
            c = res.callee(f, call)
            if c is None:
                continue
            qual, names, has_var, has_kw, kwonly = c
            keep_kw = known.get(qual, set()) if known is not None else set()
            npos = len(call.args)
            if npos > len(names):
                continue
            by_name = {}
            dup = False
            for kw in kws:
                if kw.arg in by_name or (kw.arg in names and names.index(kw.arg) < npos):
                    dup = True
                by_name[kw.arg] = kw.value
            if dup:
                continue
            if any(k not in names and k not in kwonly for k in by_name) and not has_kw:
                continue
            # target form
            new_args = list(call.args)
            i = npos
            while i < len(names) and names[i] in by_name and names[i] not in keep_kw and not has_var:
                new_args.append(by_name[names[i]])
                i += 1
            moved = set(names[npos:i])
            # trailing positionals that the reference passes by keyword
            new_kws_front = []
            while new_args and len(new_args) > 0 and len(new_args) <= len(names) and names[len(new_args) - 1] in keep_kw and \
                    len(new_args) > 0 and len(new_args) - 1 >= 0 and (len(new_args) - 1) < npos and not has_var:
                nm = names[len(new_args) - 1]
                new_kws_front.insert(0, ast.keyword(arg=nm, value=new_args.pop()))
            rest = [kw for kw in kws if kw.arg not in moved]
            new_kws = new_kws_front + rest
            changed = len(new_args) != npos or len(kws) != len(call.keywords) or any(kw.arg is None for kw in call.keywords)
            if not changed:
                continue
            # evaluation order: unchanged if the written order of all argument expressions equals the new order, or all pure
            old_order = [id(a) for a in call.args] + [id(kw.value) for kw in kws]
            new_order = [id(a) for a in new_args] + [id(kw.value) for kw in new_kws]
            if old_order != new_order and not all(_pure(a) for a in new_args) or \
                    (old_order != new_order and not all(_pure(kw.value) for kw in new_kws)):
                continue
            call.args = new_args
            call.keywords = new_kws
            done += 1
    return done

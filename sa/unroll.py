"""Normalisation: a module-level registration loop over a literal sequence,

    for size, tag in enumerate((TAG_A, TAG_B), 1):
        register(REGISTRY, tag)(make_loader(size))

is unrolled into the explicit decorated definitions it stands for (one clone of the closure returned by the factory per
iteration, the factory's parameters replaced by the iteration's argument expressions). Purely syntactic: the loop must iterate
a tuple/list display (optionally through enumerate / zip), the factory must be a module-level function whose body is
`def inner(...): ...; return inner`, and every statement of the loop body must be such a registration. Anything else is left
alone (the rules then see no registration and report the anchor as missing - exit 2, never a guess)."""
import ast
import copy


def _iter_values(it):
    """list of per-iteration AST expressions (a tuple expression per iteration for enumerate/zip), or None"""
    if isinstance(it, (ast.Tuple, ast.List)):
        if any(isinstance(e, ast.Starred) for e in it.elts):
            return None
        return list(it.elts)
    if isinstance(it, ast.Call) and isinstance(it.func, ast.Name) and not it.keywords:
        if it.func.id == "enumerate" and 1 <= len(it.args) <= 2:
            base = _iter_values(it.args[0])
            start = 0
            if len(it.args) == 2:
                if not (isinstance(it.args[1], ast.Constant) and isinstance(it.args[1].value, int)):
                    return None
                start = it.args[1].value
            if base is None:
                return None
            return [ast.Tuple(elts=[ast.Constant(value=start + i), e], ctx=ast.Load()) for i, e in enumerate(base)]
        if it.func.id == "zip" and it.args:
            cols = [_iter_values(a) for a in it.args]
            if any(c is None for c in cols):
                return None
            n = min(len(c) for c in cols)
            return [ast.Tuple(elts=[c[i] for c in cols], ctx=ast.Load()) for i in range(n)]
    return None


def _bind(target, value, env):
    if isinstance(target, ast.Name):
        env[target.id] = value
        return True
    if isinstance(target, (ast.Tuple, ast.List)) and isinstance(value, (ast.Tuple, ast.List)) and len(target.elts) == len(value.elts):
        return all(_bind(t, v, env) for t, v in zip(target.elts, value.elts))
    return False


class _Subst(ast.NodeTransformer):
    def __init__(self, env):
        self.env = env

    def visit_Name(self, n):
        if isinstance(n.ctx, ast.Load) and n.id in self.env:
            return copy.deepcopy(self.env[n.id])
        return n


def _factory_inner(fdef):
    body = [st for st in fdef.body if not (isinstance(st, ast.Expr) and isinstance(st.value, ast.Constant))]
    if len(body) >= 2 and isinstance(body[0], ast.FunctionDef):
        # cosmetic attribute stores on the closure (`inner.__name__ = op`, __qualname__, __doc__) between the def and the return
        iname = body[0].name
        body = [st for st in body if not (
            isinstance(st, ast.Assign) and len(st.targets) == 1 and isinstance(st.targets[0], ast.Attribute) and
            isinstance(st.targets[0].value, ast.Name) and st.targets[0].value.id == iname and
            st.targets[0].attr in ("__name__", "__qualname__", "__doc__", "__module__"))]
    if len(body) == 2 and isinstance(body[0], ast.FunctionDef) and isinstance(body[1], ast.Return) and \
            isinstance(body[1].value, ast.Name) and body[1].value.id == body[0].name and not body[0].decorator_list:
        a = fdef.args
        if a.vararg or a.kwarg or a.kwonlyargs or a.defaults:
            return None
        inner = body[0]
        assigned = {x.id for x in ast.walk(inner) if isinstance(x, ast.Name) and isinstance(x.ctx, (ast.Store, ast.Del))}
        if assigned & {p.arg for p in a.args}:
            return None
        return inner
    return None


def _registrar_parts(fdef):
    """({inner name: FunctionDef}, [(register(...) call, inner name)]) for a procedure of the shape
    `def reg(a, b): def f(..): ...; def g(..): ...; register(T1, k1)(f); register(T2, k2)(g)`, else None"""
    body = [st for st in fdef.body if not (isinstance(st, ast.Expr) and isinstance(st.value, ast.Constant))]
    a = fdef.args
    if a.vararg or a.kwarg or a.kwonlyargs or a.defaults or fdef.decorator_list:
        return None
    inners, regs = {}, []
    for st in body:
        if isinstance(st, ast.FunctionDef) and not st.decorator_list:
            assigned = {x.id for x in ast.walk(st) if isinstance(x, ast.Name) and isinstance(x.ctx, (ast.Store, ast.Del))}
            if assigned & {p.arg for p in a.args}:
                return None
            inners[st.name] = st
        elif isinstance(st, ast.Expr) and isinstance(st.value, ast.Call) and isinstance(st.value.func, ast.Call) and \
                isinstance(st.value.func.func, ast.Name) and st.value.func.func.id == "register" and len(st.value.args) == 1 and \
                isinstance(st.value.args[0], ast.Name) and st.value.args[0].id in inners and not st.value.keywords:
            regs.append((st.value.func, st.value.args[0].id))
        else:
            return None
    return (inners, regs) if regs else None


def _class_members(tree, funcs):
    """`name = factory(const...)` in a class body, factory a module-level closure factory: the method it stands for"""
    done = 0
    for cls in [n for n in ast.walk(tree) if isinstance(n, ast.ClassDef)]:
        for i, st in enumerate(list(cls.body)):
            if isinstance(st, ast.Assign) and len(st.targets) == 1 and isinstance(st.targets[0], ast.Name) and \
                    isinstance(st.value, ast.Call) and isinstance(st.value.func, ast.Name) and st.value.func.id in funcs and \
                    not st.value.keywords and all(isinstance(a, ast.Constant) for a in st.value.args):
                fdef = funcs[st.value.func.id]
                inner = _factory_inner(fdef)
                if inner is None or len(st.value.args) != len(fdef.args.args):
                    continue
                penv = {p.arg: a for p, a in zip(fdef.args.args, st.value.args)}
                clone = _Subst(penv).visit(copy.deepcopy(inner))
                clone.name = st.targets[0].id
                ast.copy_location(clone, st)
                for x in ast.walk(clone):
                    ast.copy_location(x, st) if not hasattr(x, "lineno") else None
                cls.body[cls.body.index(st)] = clone
                done += 1
    return done


def _explicit_tables(tree, funcs):
    """a dispatch table spelled as one module-level dict display of functions (`REG = {KEY: f, ...}`) or as item stores
    (`REG[KEY] = f`) is the decorator registration `@register(REG, KEY)` on each of the functions (only in modules that have
    such a `register` helper): the display becomes `{}`, the stores disappear"""
    if "register" not in funcs:
        return 0
    done = 0
    for st in list(tree.body):
        if isinstance(st, ast.Assign) and len(st.targets) == 1 and isinstance(st.targets[0], ast.Name) and \
                isinstance(st.value, ast.Dict) and st.value.keys and all(k is not None for k in st.value.keys) and \
                all(isinstance(v, ast.Name) and v.id in funcs for v in st.value.values):
            reg = st.targets[0].id
            for k, v in zip(st.value.keys, st.value.values):
                dec = ast.Call(func=ast.Name(id="register", ctx=ast.Load()), args=[ast.Name(id=reg, ctx=ast.Load()), k], keywords=[])
                ast.copy_location(dec, funcs[v.id])
                funcs[v.id].decorator_list.append(dec)
            st.value = ast.copy_location(ast.Dict(keys=[], values=[]), st.value)
            done += 1
        elif isinstance(st, ast.Assign) and len(st.targets) == 1 and isinstance(st.targets[0], ast.Subscript) and \
                isinstance(st.targets[0].value, ast.Name) and isinstance(st.value, ast.Name) and st.value.id in funcs and \
                st.targets[0].value.id.endswith("_registry"):
            dec = ast.Call(func=ast.Name(id="register", ctx=ast.Load()),
                           args=[ast.Name(id=st.targets[0].value.id, ctx=ast.Load()), st.targets[0].slice], keywords=[])
            ast.copy_location(dec, funcs[st.value.id])
            funcs[st.value.id].decorator_list.append(dec)
            tree.body.remove(st)
            done += 1
    return done


def normalise(tree):
    """rewrites tree.body in place; returns the number of loops unrolled"""
    funcs = {st.name: st for st in tree.body if isinstance(st, ast.FunctionDef)}
    done = _class_members(tree, funcs) + _explicit_tables(tree, funcs)
    if done:
        ast.fix_missing_locations(tree)
    new_body = []
    dead_names = set()
    for st in tree.body:
        if isinstance(st, ast.Delete) and dead_names and all(isinstance(t, ast.Name) and t.id in dead_names for t in st.targets):
            continue
        # a single module-level registration `register(REG, KEY)(FACTORY(args...))`: the decorated definition it stands for
        if isinstance(st, ast.Expr) and isinstance(st.value, ast.Call) and isinstance(st.value.func, ast.Call) and \
                isinstance(st.value.func.func, ast.Name) and st.value.func.func.id == "register" and "register" in funcs and \
                len(st.value.args) == 1 and not st.value.keywords and isinstance(st.value.args[0], ast.Call) and \
                isinstance(st.value.args[0].func, ast.Name) and st.value.args[0].func.id in funcs and not st.value.args[0].keywords:
            fac_call = st.value.args[0]
            fdef = funcs[fac_call.func.id]
            inner = _factory_inner(fdef)
            if inner is not None and len(fac_call.args) == len(fdef.args.args) and \
                    not any(isinstance(a, ast.Starred) for a in fac_call.args):
                penv = {p.arg: a for p, a in zip(fdef.args.args, fac_call.args)}
                clone = _Subst(penv).visit(copy.deepcopy(inner))
                n_single = sum(1 for x in new_body if isinstance(x, ast.FunctionDef) and x.name.startswith(inner.name + "__s"))
                clone.name = "%s__s%d" % (inner.name, n_single + 1)
                clone.decorator_list = [copy.deepcopy(st.value.func)]
                ast.copy_location(clone, st)
                for x in ast.walk(clone):
                    if not hasattr(x, "lineno"):
                        ast.copy_location(x, st)
                new_body.append(clone)
                done += 1
                continue
        if not (isinstance(st, ast.For) and not st.orelse):
            new_body.append(st)
            continue
        vals = _iter_values(st.iter)
        gen = []
        ok = vals is not None
        for k, v in enumerate(vals or [], 1):
            env = {}
            if not _bind(st.target, v, env):
                ok = False
                break
            for b in st.body:
                # REGISTRAR(args...): a module-level procedure whose body only defines closures and registers them
                if isinstance(b, ast.Expr) and isinstance(b.value, ast.Call) and isinstance(b.value.func, ast.Name) and \
                        b.value.func.id in funcs and not b.value.keywords and _registrar_parts(funcs[b.value.func.id]) is not None and \
                        len(b.value.args) == len(funcs[b.value.func.id].args.args):
                    fdef = funcs[b.value.func.id]
                    inners, regs = _registrar_parts(fdef)
                    sub = _Subst(env)
                    penv = {p.arg: sub.visit(copy.deepcopy(a)) for p, a in zip(fdef.args.args, b.value.args)}
                    for (reg_call, inner_name) in regs:
                        inner = inners[inner_name]
                        clone = _Subst(penv).visit(copy.deepcopy(inner))
                        clone.name = "%s__%d" % (inner.name, k)
                        clone.decorator_list = [_Subst(penv).visit(copy.deepcopy(reg_call))]
                        ast.copy_location(clone, st)
                        gen.append(clone)
                    continue
                # register(REG, KEY)(FACTORY(args...))
                if not (isinstance(b, ast.Expr) and isinstance(b.value, ast.Call) and isinstance(b.value.func, ast.Call) and
                        len(b.value.args) == 1 and not b.value.keywords and isinstance(b.value.args[0], ast.Call) and
                        isinstance(b.value.args[0].func, ast.Name) and b.value.args[0].func.id in funcs and
                        not b.value.args[0].keywords):
                    ok = False
                    break
                fac_call = b.value.args[0]
                fdef = funcs[fac_call.func.id]
                inner = _factory_inner(fdef)
                if inner is None or len(fac_call.args) != len(fdef.args.args):
                    ok = False
                    break
                sub = _Subst(env)
                penv = {p.arg: sub.visit(copy.deepcopy(a)) for p, a in zip(fdef.args.args, fac_call.args)}
                clone = copy.deepcopy(inner)
                clone = _Subst(penv).visit(clone)
                clone.name = "%s__%d" % (inner.name, k)
                clone.decorator_list = [sub.visit(copy.deepcopy(b.value.func))]
                ast.copy_location(clone, st)
                for x in ast.walk(clone):
                    if not hasattr(x, "lineno"):
                        ast.copy_location(x, st)
                gen.append(clone)
            if not ok:
                break
        if ok and gen:
            new_body.extend(gen)
            dead_names |= {x.id for x in ast.walk(st.target) if isinstance(x, ast.Name)}
            done += 1
        else:
            new_body.append(st)
    if done:
        tree.body[:] = new_body
        ast.fix_missing_locations(tree)
    return done

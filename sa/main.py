"""Driver: ./check <ID> [--tier quick|thorough] [--explain PATH]

exit 0  property's rules held on everything analysed (known findings are printed, not failed)
exit 1  `VIOLATION property=<id> replay=<path>` for a violation not listed in known_findings.json
exit 2  `ANALYSIS-ERROR ...` (anchor vanished, floor not met, unsupported construct, internal error)
"""
import importlib
import json
import os
import sys
import time
import traceback

HERE = os.path.dirname(os.path.abspath(__file__))
sys.path.insert(0, os.path.dirname(HERE))

from sa.engine import Ctx                     # noqa: E402
from sa.loader import AnalysisError           # noqa: E402
from sa.constfold import Unfoldable           # noqa: E402
from sa import report as R                    # noqa: E402

LEVELS = {"C19": "translation_validation"}


def P(*a):
    try:
        print(*a)
    except BrokenPipeError:
        pass


def run_property(pid, tier, root=None, overrides=None, quiet=False):
    """returns (rep, ctx, error). error is None or the analysis-error text; obligations recorded before the
    error are kept (a violation already found is reported even if a later rule could not be evaluated)."""
    ctx = Ctx(root, tier, overrides)
    rep = R.Report(pid, tier, LEVELS.get(pid, "other"))
    mod = importlib.import_module("sa.rules.%s" % pid.lower())
    err = None
    try:
        mod.run(ctx, rep)
    except (AnalysisError, Unfoldable) as e:
        err = str(e)
    except Exception:
        err = "internal error in the analyser: " + traceback.format_exc()
    try:
        repo = ctx.repo
        if getattr(repo, "renamed", None):
            rep.info("private members renamed relative to the reference tree were renamed back before analysis: %s" % ", ".join(repo.renamed))
        if getattr(repo, "folded_temps", 0):
            rep.info("%d new single-use temporaries were folded into their use (sa/tempinline.py)" % repo.folded_temps)
        if getattr(repo, "inlined", None):
            rep.info("new private helpers inlined into their callers: %s" % ", ".join(repo.inlined))
    except Exception:
        pass
    un = rep.unmet_floors()
    if un and (err is None or err.startswith("internal error")):
        tail = ("  [followed by: %s]" % err.strip().splitlines()[-1]) if err else ""
        err = "; ".join("%s: %s matched %d instance(s), below the hand-confirmed floor %d (the rule would pass "
                            "vacuously)" % (f["rule"], f["what"], f["count"], f["floor"]) for f in un) + tail
    return rep, ctx, err


def main(argv):
    if not argv or argv[0].startswith("-"):
        P("usage: check <ID> [--tier quick|thorough] [--explain PATH]")
        return 2
    pid = argv[0].upper()
    tier = os.environ.get("VERIF_TIER", "quick")
    explain = None
    i = 1
    while i < len(argv):
        if argv[i] == "--tier":
            tier = argv[i + 1]
            i += 2
        elif argv[i] in ("--explain", "--replay"):
            explain = argv[i + 1]
            i += 2
        else:
            i += 1
    if tier not in ("quick", "thorough"):
        tier = "quick"
    seed = int(os.environ.get("VERIF_SEED", "0") or 0)
    root = os.environ.get("VERIF_REPO", "/repo")
    evdir = os.environ.get("VERIF_EVIDENCE_DIR", os.path.join(R.VERIF, "evidence"))
    evpath = os.path.join(evdir, "%s.json" % pid)
    t0 = time.time()
    rep = None
    ctx = None
    err = None
    try:
        rep, ctx, err = run_property(pid, tier, root)
        if tier == "thorough" and err is None:
            from sa import probes
            probes.run(pid, ctx, rep, root)
    except (AnalysisError, Unfoldable) as e:
        err = str(e)
    except Exception:
        err = "internal error in the analyser:\n" + traceback.format_exc()
    known = R.load_known()
    kn, new = R.classify(rep, known) if rep is not None else ([], [])
    # logic moved into a new helper that is too complex to inline: a failed obligation inside (or about) such a function is
    # "cannot decide", not a violation
    if new and ctx is not None and ctx.repo.opaque_callers:
        keep = []
        undecided = []
        for o in new:
            fq = None
            if o.loc and ":" in o.loc:
                rel, _, ln = o.loc.partition(":")
                try:
                    fq = ctx.repo.function_at(rel, int(ln))
                except ValueError:
                    fq = None
            if fq is not None and fq in ctx.repo.opaque_callers and getattr(o, "kind", None) != "model":
                # (obligations of kind "model" come from model evaluation, which interprets the new helpers themselves)
                undecided.append((o, fq))
            else:
                keep.append(o)
        if undecided:
            new = keep
            msg = "; ".join("%s [%s] in %s, which delegates to the new helper(s) %s that could not be inlined" % (
                o.rule, o.key[:60], fq.split(".", 2)[-1], [h.split(".")[-1] for h in ctx.repo.opaque_callers[fq]]) for o, fq in undecided[:4])
            err = (err + "; " if err else "") + "cannot decide: " + msg
    # the parameters of a function the rules read positionally were reordered / extended (IDE "change signature", every caller
    # updated): a failed obligation in that function or in one of its callers is "cannot decide", not a violation
    drifted = getattr(ctx.repo, "drifted", {}) if ctx is not None else {}
    if new and drifted:
        short = {q.rsplit(".", 1)[-1]: q for q in drifted}
        keep, und = [], []
        for o in new:
            fq = None
            if o.loc and ":" in o.loc:
                rel, _, ln = o.loc.partition(":")
                try:
                    fq = ctx.repo.function_at(rel, int(ln))
                except ValueError:
                    fq = None
            hit = None
            if fq is not None:
                if fq in drifted:
                    hit = fq
                else:
                    fobj = ctx.repo.funcs.get(fq)
                    if fobj is not None:
                        import ast as _ast
                        for c_ in _ast.walk(fobj.node):
                            if isinstance(c_, _ast.Call):
                                nm_ = c_.func.attr if isinstance(c_.func, _ast.Attribute) else getattr(c_.func, "id", None)
                                if nm_ in short:
                                    hit = short[nm_]
                                    break
            if hit is None:
                # an obligation about a drifted function reported at another location names it in its key
                for nm_, q_ in short.items():
                    if nm_ in (o.key or ""):
                        hit = q_
                        break
            if hit is not None:
                und.append((o, hit))
            else:
                keep.append(o)
        if und:
            new = keep
            msg = "; ".join("%s [%s]: the signature of %s changed relative to the reference tree (%s -> %s)" % (
                o.rule, o.key[:50], q.split(".", 2)[-1], drifted[q][0], drifted[q][1]) for o, q in und[:3])
            err = (err + "; " if err else "") + "cannot decide: " + msg
    if err is not None and not new:
        P("ANALYSIS-ERROR property=%s %s" % (pid, err))
        _error_evidence(pid, tier, seed, root, err.splitlines()[-1], evpath, t0)
        return 2
    if err is not None:
        P("note: analysis incomplete after the violation(s) below: %s" % err.splitlines()[0])
    P("%s [%s] tree=%s: %d obligations over %d rules, %d discharged, %d known finding(s), %d violation(s); "
          "%d functions, %d CFG nodes" % (pid, tier, root, len(rep.obs), len(rep.rules),
                                          len(rep.obs) - len(rep.failed()), len(kn), len(new),
                                          len(rep.functions), rep.cfg_nodes))
    for fl in rep.floors:
        P("  floor %-7s %-55s %d (>= %d)" % (fl["rule"], fl["what"], fl["count"], fl["floor"]))
    for o, k in kn:
        P("KNOWN-FINDING: property=%s %s [%s] %s" % (pid, k.get("what", o.key), o.rule, o.loc or ""))
    vpath = os.path.join(evdir, "%s.violations.json" % pid)
    if new:
        wit = []
        for o in new:
            P("  %s  %s  %s\n      %s" % (o.loc or "?", o.rule, o.key, o.msg))
            if o.witness is not None and explain is None:
                w = o.witness if isinstance(o.witness, list) else [o.witness]
                for line in w[:25]:
                    P("        | %s" % (line,))
            wit.append(o.as_dict())
        os.makedirs(evdir, exist_ok=True)
        with open(vpath, "w") as f:
            json.dump({"property": pid, "tree": root, "violations": wit}, f, indent=1, default=str)
    elif os.path.exists(vpath):
        try:
            os.remove(vpath)
        except OSError:
            pass
    if explain:
        P("--- explain %s (re-derived on the current tree) ---" % explain)
        for o in rep.failed():
            P(json.dumps(o.as_dict(), indent=1, default=str))
    R.write_evidence(rep, ctx.repo, seed, len(new), kn, path=evpath)
    if new:
        P("VIOLATION property=%s replay=%s" % (pid, vpath))
        return 1
    return 0


def _error_evidence(pid, tier, seed, root, msg, evpath, t0):
    try:
        os.makedirs(os.path.dirname(evpath), exist_ok=True)
        with open(evpath, "w") as f:
            json.dump({"property_id": pid, "tier": tier, "seed": seed, "level": LEVELS.get(pid, "other"),
                       "coverage": {"explanation": "analysis error, nothing was decided: %s" % msg,
                                    "analysis_error": msg},
                       "wall_s": round(time.time() - t0, 3), "violations": 0}, f, indent=1)
    except Exception:
        pass


def _watchdog(signum, frame):
    P("ANALYSIS-ERROR property=%s analysis did not finish within the time budget" % (sys.argv[1] if len(sys.argv) > 1 else "?"))
    sys.stdout.flush()
    os._exit(2)


if __name__ == "__main__":
    import signal
    signal.signal(signal.SIGALRM, _watchdog)
    signal.alarm(int(os.environ.get("VERIF_BUDGET_S", "600")))
    rc = main(sys.argv[1:])
    sys.stdout.flush()
    os._exit(rc)

"""Obligation bookkeeping, known findings, evidence files."""
import json
import os
import time

from .loader import AnalysisError

VERIF = os.path.dirname(os.path.dirname(os.path.abspath(__file__)))


class Ob:
    __slots__ = ("rule", "key", "ok", "msg", "loc", "witness", "nontrivial", "kind")

    def __init__(self, rule, key, ok, msg, loc, witness, nontrivial, kind):
        self.rule = rule
        self.key = key
        self.ok = ok
        self.msg = msg
        self.loc = loc
        self.witness = witness
        self.nontrivial = nontrivial
        self.kind = kind

    def as_dict(self):
        d = {"rule": self.rule, "instance": self.key, "discharged": bool(self.ok), "argument": self.msg}
        if self.loc:
            d["at"] = self.loc
        if self.witness is not None:
            d["witness"] = self.witness
        return d


class Report:
    def __init__(self, prop, tier="quick", level="other"):
        self.prop = prop
        self.tier = tier
        self.level = level
        self.obs = []
        self.rules = {}          # rule id -> description (clause decided)
        self.infos = []
        self.assumptions = []
        self.floors = []
        self.functions = set()
        self.cfg_nodes = 0
        self.modules = set()
        self.extra = {}
        self.probes = []         # dicts
        self.t0 = time.time()
        self._seen = set()

    # ---------------------------------------------------------------- recording
    def rule(self, rid, text):
        self.rules[rid] = text

    def ob(self, rule, key, ok, msg, loc=None, witness=None, nontrivial=True, kind="path"):
        """record one obligation instance. key is semantic (construct + role), never a line number."""
        k = (rule, key)
        if k in self._seen:
            # same instance reported twice: keep the failing one
            for o in self.obs:
                if (o.rule, o.key) == k:
                    if o.ok and not ok:
                        o.ok, o.msg, o.loc, o.witness = ok, msg, loc, witness
                    return o
        self._seen.add(k)
        o = Ob(rule, key, bool(ok), msg, loc, witness, nontrivial, kind)
        self.obs.append(o)
        return o

    def floor(self, rule, what, count, minimum):
        """instance floors are evaluated at the end of the run (unmet_floors): a rule matching fewer instances
        than confirmed by hand on the pinned tree is an analysis error - unless the run already found a
        violation, which is reported first."""
        self.floors.append({"rule": rule, "what": what, "count": count, "floor": minimum})

    def unmet_floors(self):
        return [f for f in self.floors if f["count"] < f["floor"]] + list(getattr(self, "deferred", []))

    def undecided(self, rule, what, why):
        """a rule that could not be evaluated (construct outside the analyser's model): like an unmet floor it makes the run an
        ANALYSIS-ERROR at the end unless a violation was found elsewhere; the remaining rules are still evaluated"""
        if not hasattr(self, "deferred"):
            self.deferred = []
        self.deferred.append({"rule": rule, "what": "%s could not be evaluated (%s)" % (what, why), "count": 0, "floor": 1})

    def info(self, msg):
        self.infos.append(msg)

    def assume(self, *msgs):
        for m in msgs:
            if m not in self.assumptions:
                self.assumptions.append(m)

    def analysed(self, func=None, cfg=None, module=None):
        if func is not None:
            self.functions.add(func if isinstance(func, str) else func.qual)
            m = getattr(func, "module", None)
            if m is not None:
                self.modules.add(m.relpath)
        if cfg is not None:
            self.cfg_nodes += len(cfg.live)
        if module is not None:
            self.modules.add(module.relpath)

    # ---------------------------------------------------------------- results
    def failed(self):
        return [o for o in self.obs if not o.ok]


def load_known(path=None):
    path = path or os.path.join(VERIF, "known_findings.json")
    if not os.path.exists(path):
        return {"findings": [], "fixed": []}
    with open(path) as f:
        return json.load(f)


def classify(rep, known):
    """split failed obligations into (known, new)"""
    kn, new = [], []
    idx = {(k["property"], k["rule"], k["key"]): k for k in known.get("findings", [])}
    for o in rep.failed():
        k = idx.get((rep.prop, o.rule, o.key))
        if k is not None:
            kn.append((o, k))
        else:
            new.append(o)
    return kn, new


def write_evidence(rep, repo, seed, violations, known_hits, error=None, path=None):
    path = path or os.path.join(VERIF, "evidence", "%s.json" % rep.prop)
    os.makedirs(os.path.dirname(path), exist_ok=True)
    obs = rep.obs
    discharged = [o for o in obs if o.ok]
    distinct_nontrivial = len({(o.rule, o.key) for o in obs if o.nontrivial})
    probes_run = len(rep.probes)
    samples = []
    seen_rules = set()
    for o in obs:                       # one sample per rule first, then failures
        if o.rule not in seen_rules and o.nontrivial:
            seen_rules.add(o.rule)
            samples.append(o.as_dict())
    for o in obs:
        if not o.ok and o.as_dict() not in samples:
            samples.append(o.as_dict())
    samples = samples[:40]
    if not samples:
        samples = [o.as_dict() for o in obs[:5]] or [{"note": "no obligation was generated"}]
    explanation = ("Static analysis of the current working tree of %s (ast-based; the package is parsed, never "
                   "imported or run). Rules applied and the clause each decides: " % repo.root)
    explanation += " | ".join("%s: %s" % (r, t) for r, t in sorted(rep.rules.items()))
    explanation += (" || These rules decide the structural necessary conditions named above, not the behaviour "
                    "itself; see DESIGN.md section 4 for the clauses left undecided.")
    cov = {
        "explanation": explanation,
        "obligations": len(obs),
        "discharged": len(discharged) + len(known_hits),
        "discharged_strict": len(discharged),
        "known_findings_matched": len(known_hits),
        "evaluations": len(obs) + probes_run + sum(int(v) for v in rep.extra.get("table_rows", {}).values()),
        "distinct_nontrivial": distinct_nontrivial,
        "rule": "one evaluation = one obligation instance (rule id x construct/site/path/table row) enumerated "
                "from the current tree, plus thorough-tier probes; an instance is non-trivial when discharging "
                "it needed a path / dominance / dataflow / constant-folding / table argument rather than a mere "
                "existence check; distinct = distinct (rule, construct key) pairs",
        "samples": samples,
        "exhaustive": True,
        "rules": sorted(rep.rules),
        "floors": rep.floors,
        "functions_analysed": sorted(rep.functions),
        "cfg_nodes": rep.cfg_nodes,
        "modules": repo.digests(),
        "checker_cmd": "./check %s%s" % (rep.prop, " --tier thorough" if rep.tier == "thorough" else ""),
        "trusted_base": ["CPython ast module", "sa/constfold.py", "sa/cfg.py exception model",
                         "reviewed tables in sa/tables.py"],
        "info": rep.infos[:60],
    }
    if rep.probes:
        cov["probes"] = rep.probes
    cov.update({k: v for k, v in rep.extra.items() if k != "table_rows"})
    if "table_rows" in rep.extra:
        cov["table_rows"] = rep.extra["table_rows"]
    if rep.level == "translation_validation":
        cov.setdefault("programs", 2)
        cov.setdefault("disagreements_checked", len(obs))
    if error:
        cov["analysis_error"] = error
    ev = {
        "property_id": rep.prop,
        "tier": rep.tier,
        "seed": int(seed),
        "level": rep.level,
        "coverage": cov,
        "assumptions": rep.assumptions or ["see DESIGN.md section 6"],
        "wall_s": round(time.time() - rep.t0, 3),
        "violations": int(violations),
    }
    tmp = path + ".tmp"
    with open(tmp, "w") as f:
        json.dump(ev, f, indent=1, default=str)
    os.replace(tmp, path)
    return path

"""Normalisation: a module-private namedtuple used only as a record constructor is replaced by the plain tuple it is.

    _Hdr = namedtuple("_Hdr", ["length", "compressed"])
    h = _Hdr._make(S.unpack(raw)); use(h.length)        ->   h = tuple(S.unpack(raw)); use(h[0])
    S.pack(*_Hdr(length=n, compressed=c))                 ->   S.pack(n, c)

Applied only when every use of the class name in its module is a constructor call (`NT(...)` with all fields, positionally or
by keyword) or `NT._make(E)`, and every field read goes through a local that is bound exactly once, directly from such a
call. Any other use (isinstance, subclassing, _replace, passing the class around, a value escaping to another function where
its fields are read by name) leaves the module untouched."""
import ast
import copy


def _fields(call):
    if not (isinstance(call, ast.Call) and (
            (isinstance(call.func, ast.Name) and call.func.id == "namedtuple") or
            (isinstance(call.func, ast.Attribute) and call.func.attr == "namedtuple")) and len(call.args) == 2 and not call.keywords):
        return None
    f = call.args[1]
    if isinstance(f, ast.Constant) and isinstance(f.value, str):
        return f.value.replace(",", " ").split()
    if isinstance(f, (ast.List, ast.Tuple)) and all(isinstance(e, ast.Constant) and isinstance(e.value, str) for e in f.elts):
        return [e.value for e in f.elts]
    return None


def normalise(tree):
    nts = {}
    for st in tree.body:
        if isinstance(st, ast.Assign) and len(st.targets) == 1 and isinstance(st.targets[0], ast.Name):
            fl = _fields(st.value)
            if fl:
                nts[st.targets[0].id] = (fl, st)
    if not nts:
        return 0
    done = _explode_record_params(tree, nts)
    parents = {}
    for n in ast.walk(tree):
        for c in ast.iter_child_nodes(n):
            parents[c] = n
    for name, (fields, defst) in list(nts.items()):
        ok = True
        ctor_calls, make_calls = [], []
        for n in ast.walk(tree):
            if isinstance(n, ast.Name) and n.id == name:
                if n is defst.targets[0]:
                    continue
                p = parents.get(n)
                if isinstance(p, ast.Call) and p.func is n:
                    if any(isinstance(a, ast.Starred) for a in p.args) or any(k.arg is None for k in p.keywords):
                        ok = False
                        break
                    given = len(p.args) + len(p.keywords)
                    if given != len(fields) or any(k.arg not in fields[len(p.args):] for k in p.keywords):
                        ok = False
                        break
                    ctor_calls.append(p)
                elif isinstance(p, ast.Attribute) and p.attr == "_make" and isinstance(parents.get(p), ast.Call) and \
                        parents[p].func is p and len(parents[p].args) == 1 and not parents[p].keywords:
                    make_calls.append(parents[p])
                else:
                    ok = False
                    break
        if not ok or not (ctor_calls or make_calls):
            continue
        # field reads: only through locals bound once, directly from a constructor / _make call
        rewrites = []      # (Attribute node, index)
        record_calls = set(map(id, ctor_calls + make_calls))
        for fn in [x for x in ast.walk(tree) if isinstance(x, (ast.FunctionDef, ast.Module))]:
            scope_nodes = list(_own_nodes(fn))
            bound = {}
            for x in scope_nodes:
                if isinstance(x, ast.Name) and isinstance(x.ctx, (ast.Store, ast.Del)):
                    bound[x.id] = bound.get(x.id, 0) + 1
            recs = set()
            for x in scope_nodes:
                if isinstance(x, ast.Assign) and len(x.targets) == 1 and isinstance(x.targets[0], ast.Name) and \
                        id(x.value) in record_calls and bound.get(x.targets[0].id) == 1:
                    recs.add(x.targets[0].id)
            for x in scope_nodes:
                if isinstance(x, ast.Attribute) and isinstance(x.value, ast.Name) and x.value.id in recs:
                    if x.attr in fields and isinstance(x.ctx, ast.Load):
                        rewrites.append((x, fields.index(x.attr)))
                    else:
                        ok = False
        # a record call whose value is not bound to such a local and not consumed positionally (`f(*NT(..))`, `a, b = NT(..)`)
        # could have its fields read by name elsewhere: be conservative
        for c in ctor_calls + make_calls:
            p = parents.get(c)
            if isinstance(p, ast.Starred):
                continue
            if isinstance(p, ast.Assign) and p.value is c and len(p.targets) == 1 and isinstance(p.targets[0], (ast.Name, ast.Tuple)):
                continue
            ok = False
        if not ok:
            continue
        for c in ctor_calls:
            by_kw = {k.arg: k.value for k in c.keywords}
            elts = list(c.args) + [by_kw[f] for f in fields[len(c.args):]]
            _become(c, ast.Tuple(elts=elts, ctx=ast.Load()))
        for c in make_calls:
            _become(c, ast.Call(func=ast.Name(id="tuple", ctx=ast.Load()), args=list(c.args), keywords=[]))
        for a, i in rewrites:
            _become(a, ast.Subscript(value=a.value, slice=ast.Constant(value=i), ctx=ast.Load()))
        tree.body.remove(defst)
        done += 1
    if done:
        # f(*(a, b)) == f(a, b)
        for n in ast.walk(tree):
            if isinstance(n, ast.Call):
                out = []
                for a in n.args:
                    if isinstance(a, ast.Starred) and isinstance(a.value, ast.Tuple) and \
                            not any(isinstance(e, ast.Starred) for e in a.value.elts):
                        out.extend(a.value.elts)
                    else:
                        out.append(a)
                n.args = out
        ast.fix_missing_locations(tree)
    return done


def _explode_record_params(tree, nts):
    """a private function/method whose parameter `r` is only ever read as `r.<field>` and which every caller in the module calls
    with a record constructed on the spot (`f(NT(a, b, c))`) is the function of the record's fields: `def f(a, b, c)` called as
    `f(a, b, c)` (field names become the parameter names)"""
    done = 0
    funcs = [n for n in ast.walk(tree) if isinstance(n, ast.FunctionDef) and n.name.startswith("_") and not n.name.startswith("__")]
    for fn in funcs:
        a = fn.args
        if a.vararg or a.kwarg or a.kwonlyargs or a.defaults or fn.decorator_list:
            continue
        for pi, prm in enumerate(list(a.args)):
            if pi == 0 and prm.arg in ("self", "cls"):
                continue
            uses = [n for n in ast.walk(fn) if isinstance(n, ast.Name) and n.id == prm.arg]
            par = {}
            for n in ast.walk(fn):
                for c in ast.iter_child_nodes(n):
                    par[c] = n
            if not uses or not all(isinstance(par.get(u), ast.Attribute) and par[u].value is u and isinstance(par[u].ctx, ast.Load)
                                   for u in uses):
                continue
            # call sites: f(...) or <recv>.f(...) anywhere in the module
            sites = []
            for n in ast.walk(tree):
                if isinstance(n, ast.Call) and ((isinstance(n.func, ast.Name) and n.func.id == fn.name) or
                                                (isinstance(n.func, ast.Attribute) and n.func.attr == fn.name)):
                    sites.append(n)
            other_refs = [n for n in ast.walk(tree) if (isinstance(n, ast.Attribute) and n.attr == fn.name or
                                                        isinstance(n, ast.Name) and n.id == fn.name) and
                          not any(n is s_.func for s_ in sites)]
            if not sites or other_refs:
                continue
            is_method = bool(a.args) and a.args[0].arg in ("self", "cls")
            ai = pi - (1 if is_method else 0)
            nt = None
            ok = True
            for s_ in sites:
                if s_.keywords or any(isinstance(x, ast.Starred) for x in s_.args) or len(s_.args) != len(a.args) - (1 if is_method else 0):
                    ok = False
                    break
                arg = s_.args[ai]
                if not (isinstance(arg, ast.Call) and isinstance(arg.func, ast.Name) and arg.func.id in nts):
                    ok = False
                    break
                fields = nts[arg.func.id][0]
                if nt not in (None, arg.func.id) or arg.keywords and any(k.arg not in fields for k in arg.keywords) or \
                        len(arg.args) + len(arg.keywords) != len(fields) or any(isinstance(x, ast.Starred) for x in arg.args):
                    ok = False
                    break
                nt = arg.func.id
            if not ok or nt is None:
                continue
            fields = nts[nt][0]
            taken = {x.arg for x in a.args if x is not prm} | {n.id for n in ast.walk(fn) if isinstance(n, ast.Name) and n.id != prm.arg}
            if set(fields) & taken or any(par[u].attr not in fields for u in uses):
                continue
            for u in uses:
                at = par[u]
                _become(at, ast.Name(id=at.attr, ctx=ast.Load()))
            a.args[pi:pi + 1] = [ast.arg(arg=f_) for f_ in fields]
            for s_ in sites:
                arg = s_.args[ai]
                by_kw = {k.arg: k.value for k in arg.keywords}
                vals = list(arg.args) + [by_kw[f_] for f_ in fields[len(arg.args):]]
                s_.args[ai:ai + 1] = vals
            done += 1
            break
    if done:
        ast.fix_missing_locations(tree)
    return done


def _own_nodes(scope):
    """nodes of a function (or the module) without descending into nested function/class scopes"""
    stack = list(ast.iter_child_nodes(scope))
    while stack:
        n = stack.pop()
        yield n
        if isinstance(n, (ast.FunctionDef, ast.AsyncFunctionDef, ast.ClassDef, ast.Lambda)):
            continue
        stack.extend(ast.iter_child_nodes(n))


def _become(node, new):
    """turn `node` into `new` in place (keeps identity for parents that reference it)"""
    loc = {k: getattr(node, k) for k in ("lineno", "col_offset", "end_lineno", "end_col_offset") if hasattr(node, k)}
    node.__class__ = new.__class__
    for f in list(node.__dict__):
        if f not in ("_parent", "_module"):
            del node.__dict__[f]
    node.__dict__.update(new.__dict__)
    node.__dict__.update(loc)

"""Resolved call graph over the package (CHA for self-calls, a reviewed field-type table for
self.<field>.<method>(), explicit registries for the three indirect-call sites)."""
import ast

from . import astutil as A

# field-type table: (class qual, field) -> class qual. Inferred from __init__ assignments where the
# constructor is a package class; the entries below are the ones bound from parameters (one reason each).
FIELD_TYPES = {
    ("rpyc.core.protocol.Connection", "_channel"): ("rpyc.core.channel.Channel", "constructor parameter `channel`; every factory passes a Channel"),
    ("rpyc.core.protocol.Connection", "_local_root"): ("rpyc.core.service.Service", "constructor parameter `root` (the service instance)"),
    ("rpyc.core.channel.Channel", "stream"): ("rpyc.core.stream.Stream", "constructor parameter `stream`"),
    ("rpyc.core.async_.AsyncResult", "_conn"): ("rpyc.core.protocol.Connection", "constructor parameter `conn`"),
    ("rpyc.utils.helpers.BgServingThread", "_conn"): ("rpyc.core.protocol.Connection", "constructor parameter `conn`"),
    ("rpyc.utils.server.Server", "service"): ("rpyc.core.service.Service", "constructor parameter `service`"),
}
# receiver-name conventions used for plain locals/parameters (reviewed; package-wide naming)
VAR_TYPES = {
    "conn": "rpyc.core.protocol.Connection",
}


class CallGraph:
    def __init__(self, ctx):
        self.ctx = ctx
        self.repo = ctx.repo
        self.field_types = dict((k, v[0]) for k, v in FIELD_TYPES.items())
        self._infer_fields()
        self.edges = {}      # func qual -> set of callee quals
        self.external = {}   # func qual -> list of (call src, loc)
        self.sites = {}      # func qual -> list of (Call, [callee quals])
        self.nested_edges = {}
        for f in self.repo.funcs.values():
            self._scan(f)

    def _infer_fields(self):
        for c in self.repo.classes.values():
            init = c.methods.get("__init__")
            if init is None:
                continue
            for n in A.walk(init.node):
                if isinstance(n, ast.Assign) and isinstance(n.value, ast.Call):
                    d = A.call_name(n.value)
                    if not d:
                        continue
                    r = self.repo.resolve_name(c.module, d)
                    if r and r[0] == "class":
                        for t in n.targets:
                            if isinstance(t, ast.Attribute) and isinstance(t.value, ast.Name) and t.value.id == "self":
                                self.field_types.setdefault((c.qual, t.attr), r[1].qual)

    # ------------------------------------------------------------------ resolution
    def field_type(self, cls, field):
        for c in self.repo.mro(cls):
            t = self.field_types.get((c.qual, field))
            if t:
                return self.repo.classes.get(t)
        return None

    def methods_named(self, cls, name, with_subclasses=True):
        out = []
        m = self.repo.method(cls, name)
        if m is not None:
            out.append(m)
        if with_subclasses:
            for sc in self.repo.subclasses(cls):
                if name in sc.methods and sc.methods[name] not in out:
                    out.append(sc.methods[name])
        return out

    def owner_class(self, f):
        g = f
        while g is not None:
            if g.cls is not None:
                return g.cls
            g = g.parent
        return None

    def resolve(self, f, call):
        """list of Func for the callee(s) of `call` inside function f, or None if external/unknown"""
        fn = call.func
        cls = self.owner_class(f)
        if isinstance(fn, ast.Name):
            # nested function of f (or of its parents)
            g = f
            while g is not None:
                for nf in g.nested:
                    if nf.name == fn.id:
                        return [nf]
                g = g.parent
            r = self.repo.resolve_name(f.module, fn.id)
            if r:
                if r[0] == "func":
                    return [r[1]]
                if r[0] == "class":
                    init = self.repo.method(r[1], "__init__")
                    return [init] if init else []
            return None
        if isinstance(fn, ast.Attribute):
            recv = fn.value
            name = fn.attr
            # self.m() / cls.m()
            if isinstance(recv, ast.Name) and recv.id in ("self", "cls") and cls is not None:
                ms = self.methods_named(cls, name)
                if ms:
                    return ms
                return None
            # self.field.m()
            if isinstance(recv, ast.Attribute) and isinstance(recv.value, ast.Name) and recv.value.id == "self" \
                    and cls is not None:
                t = self.field_type(cls, recv.attr)
                if t is not None:
                    ms = self.methods_named(t, name)
                    return ms or None
                return None
            # super().m()
            if isinstance(recv, ast.Call) and isinstance(recv.func, ast.Name) and recv.func.id == "super" \
                    and cls is not None:
                for b in self.repo.mro(cls)[1:]:
                    if name in b.methods:
                        return [b.methods[name]]
                return None
            d = A.dotted(recv)
            if d:
                r = self.repo.resolve_name(f.module, d + "." + name)
                if r:
                    if r[0] == "func":
                        return [r[1]]
                    if r[0] == "class":
                        init = self.repo.method(r[1], "__init__")
                        return [init] if init else []
                r = self.repo.resolve_name(f.module, d)
                if r and r[0] == "class":
                    ms = self.methods_named(r[1], name, with_subclasses=False)
                    return ms or None
                base = d.split(".")[-1]
                if base in VAR_TYPES and "." not in d:
                    t = self.repo.classes.get(VAR_TYPES[base])
                    if t is not None:
                        ms = self.methods_named(t, name)
                        return ms or None
        return None

    def _scan(self, f):
        es = set()
        ext = []
        sites = []
        body_calls = []
        for st in (f.node.body if isinstance(f.node.body, list) else [f.node.body]):
            body_calls.extend(A.calls(st))
        for c in body_calls:
            r = self.resolve(f, c)
            if r is None:
                # registries
                r2 = self._registry(f, c)
                if r2 is not None:
                    r = r2
            if r is None:
                ext.append(c)
                sites.append((c, None))
            else:
                for g in r:
                    es.add(g.qual)
                sites.append((c, [g.qual for g in r]))
        # nested functions defined here are considered called (closures handed out) - kept separately so that
        # effect rules can ask for the closure of code that actually *runs*
        self.nested_edges[f.qual] = {nf.qual for nf in f.nested}
        self.edges[f.qual] = es
        self.external[f.qual] = ext
        self.sites[f.qual] = sites

    def _registry(self, f, call):
        fn = call.func
        # self._HANDLERS[handler](self, *args)
        if isinstance(fn, ast.Subscript) and isinstance(fn.value, ast.Attribute) and fn.value.attr == "_HANDLERS":
            cls = self.repo.classes.get("rpyc.core.protocol.Connection")
            return [m for n, m in cls.methods.items() if n.startswith("_handle_")] if cls else None
        # _dump_registry.get(type(obj), _undumpable)(obj, stream) / _load_registry.get(tag)(stream)
        if isinstance(fn, ast.Call) and isinstance(fn.func, ast.Attribute) and fn.func.attr == "get":
            d = A.dotted(fn.func.value)
            if d in ("_dump_registry", "_load_registry"):
                out = []
                for q, g in self.repo.funcs.items():
                    if g.module is f.module and g.parent is None and g.cls is None:
                        for dec in g.node.decorator_list:
                            if isinstance(dec, ast.Call) and A.call_name(dec) == "register" and dec.args \
                                    and A.dotted(dec.args[0]) == d:
                                out.append(g)
                for a in fn.args[1:]:
                    if isinstance(a, ast.Name):
                        r = self.repo.resolve_name(f.module, a.id)
                        if r and r[0] == "func":
                            out.append(r[1])
                return out
        # loader = _load_registry.get(tag); loader(stream)
        if isinstance(fn, ast.Name):
            for n in A.walk(f.node):
                if isinstance(n, ast.Assign) and len(n.targets) == 1 and isinstance(n.targets[0], ast.Name) \
                        and n.targets[0].id == fn.id and isinstance(n.value, ast.Call) \
                        and isinstance(n.value.func, ast.Attribute) and n.value.func.attr == "get" \
                        and A.dotted(n.value.func.value) in ("_dump_registry", "_load_registry"):
                    fake = ast.Call(func=n.value, args=call.args, keywords=[])
                    return self._registry(f, fake)
        # getattr(self, "cmd_%s" % ...)
        return None

    # ------------------------------------------------------------------ closure
    def closure(self, roots, nested=True):
        seen = set()
        stack = [r if isinstance(r, str) else r.qual for r in roots]
        while stack:
            q = stack.pop()
            if q in seen:
                continue
            seen.add(q)
            stack.extend(self.edges.get(q, ()))
            if nested:
                stack.extend(self.nested_edges.get(q, ()))
        return seen

    def callers_of(self, qual):
        return sorted(q for q, es in self.edges.items() if qual in es)


def get(ctx):
    cg = getattr(ctx, "_callgraph", None)
    if cg is None:
        cg = CallGraph(ctx)
        ctx._callgraph = cg
    return cg

"""Interprocedural summaries computed to a fixpoint over the resolved call graph."""
import ast

from . import astutil as A
from . import cfg as C
from . import callgraph


def exc_escapes(ctx, exc_cls, seeds_external=None):
    """set of function quals out of which an exception of class `exc_cls` (raised explicitly somewhere in the
    package, or by one of the `seeds_external` dotted callee names) can escape, honouring handlers.
    Only exceptions of that class are tracked: a node raises it iff it is `raise <exc_cls or subclass>(...)`,
    a bare re-raise inside a handler that may have caught it, or a call to a function already in the set."""
    key = ("exc_escapes", exc_cls.__name__)
    cache = getattr(ctx, "_summaries", None)
    if cache is None:
        cache = ctx._summaries = {}
    if key in cache:
        return cache[key]
    cg = callgraph.get(ctx)
    seeds_external = set(seeds_external or ())
    esc = set()
    funcs = list(ctx.repo.funcs.values())
    # candidate functions: those that contain an explicit raise of the class, or a call (they may propagate)
    changed = True
    rounds = 0
    while changed and rounds < 12:
        changed = False
        rounds += 1
        for f in funcs:
            if f.qual in esc:
                continue
            site_callees = {}
            for c, callees in cg.sites.get(f.qual, ()):
                site_callees[id(c)] = callees

            def raises(node_ast, kind, _sc=site_callees):
                if node_ast is None:
                    return set()
                if kind in ("with_exit", "except"):
                    return set()
                if isinstance(node_ast, ast.Raise):
                    return None        # default: the named class / re-raise of what flowed in
                out = C.default_raises(node_ast, kind) or set()
                out = set(out)
                for c in A.calls(node_ast):
                    callees = _sc.get(id(c))
                    if callees:
                        if any(q in esc for q in callees):
                            out.add(exc_cls)
                    else:
                        d = A.call_name(c)
                        if d in seeds_external:
                            out.add(exc_cls)
                return out
            # quick pre-filter: nothing in this function can raise the class
            has = False
            for n in A.walk(f.node):
                if isinstance(n, ast.Raise) and n.exc is not None:
                    cl = C.X.get(n.exc)
                    if cl and any(issubclass(k, exc_cls) for k in cl):
                        has = True
                        break
                if isinstance(n, ast.Call):
                    callees = site_callees.get(id(n))
                    if callees and any(q in esc for q in callees):
                        has = True
                        break
                    if not callees and A.call_name(n) in seeds_external:
                        has = True
                        break
            if not has:
                continue
            g = C.CFG(f.node, raises=raises, name=f.qual)
            flows = set()
            for (a, b), ts in g.etypes.items():
                if b == g.excexit.id:
                    flows |= ts
            if any(issubclass(k, exc_cls) for k in flows):
                esc.add(f.qual)
                changed = True
    cache[key] = esc
    return esc

#!/venv/bin/python
"""Regenerates /verif/MANIFEST.json from the table below (kept here so the manifest stays consistent)."""
import json, os, importlib, sys
HERE = os.path.dirname(os.path.dirname(os.path.abspath(__file__)))
sys.path.insert(0, HERE)

CLAIMS = {
 # id: (technique, level text, level note)
 "C12": ("typestate/lock-region and path rules over a typed-exception CFG of Connection._send; who-may-call over the package",
         "Decides rules R12.1-R12.6 (send-lock pairing on all exits incl. exceptional, transport written only under the lock, "
         "enqueue-before-try-lock, no normal return without a queue re-check outside the lock or a failed try-lock, guarded pop, FIFO ends, "
         "non-blocking acquisition, atomic queue operations, popped item is what is sent) on every CFG path of the current source - "
         "the structural necessary conditions of the hand-off protocol; it does not enumerate schedules, so it decides the discipline, not the behaviour.",
         "CPython GIL atomicity of list.append/pop(0); Lock.release on a held lock does not raise; sa/cfg.py exception model"),
}

def main():
    checks = []
    for pid in sorted(CLAIMS):
        tech, text, note = CLAIMS[pid]
        checks.append({
            "property_id": pid,
            "quick_cmd": "./check %s" % pid,
            "thorough_cmd": "./check %s --tier thorough" % pid,
            "evidence_file": "/verif/evidence/%s.json" % pid,
            "replay_cmd_template": "./check %s --explain {path}" % pid,
            "engine": "sa",
            "level_claimed": {"category": "translation_validation" if pid == "C19" else "other", "text": text,
                              "design_ref": "DESIGN.md section 3 (%s), section 4" % pid},
            "level_note": note,
            "technique": tech,
        })
    props = [json.loads(l)["id"] for l in open(os.path.join(HERE, "properties.jsonl"))]
    na = [{"property_id": p, "reason": NA.get(p, "check not built yet in this working session (static rules designed in DESIGN.md section 3; not claimed until the rule set is implemented and validated)")}
          for p in props if p not in CLAIMS]
    man = {
        "version": 1,
        "setup_cmd": "/venv/bin/python -B -m compileall -q sa >/dev/null 2>&1; /venv/bin/python -B sa/selfcheck.py",
        "hooks": {"guard": "RPYC_VERIF", "enable": "none needed: the checks are static and read /repo's working tree; no instrumentation is compiled in",
                  "baseline_off_cmd": "cd /repo && /venv/bin/python -m pytest -ra -q -p no:cacheprovider --timeout=900 --continue-on-collection-errors",
                  "source_commits": [], "add_only": True},
        "engines": [{"name": "sa", "path": "/verif/sa", "serves_properties": sorted(CLAIMS),
                     "kind_free_text": "repository-specific static analysis: ast loader + constant folder + typed-exception CFG + dominance/path/dataflow queries + per-property rules"}],
        "checks": checks,
        "notes": "Static analysis only (DESIGN.md). exit 0 held / known findings only; exit 1 VIOLATION; exit 2 ANALYSIS-ERROR (anchor vanished, floor not met). VERIF_REPO selects the tree (default /repo).",
        "not_applicable": na,
    }
    with open(os.path.join(HERE, "MANIFEST.json"), "w") as f:
        json.dump(man, f, indent=1)
    print("MANIFEST.json: %d checks, %d not_applicable" % (len(checks), len(na)))
NA = {}
main()

#!/venv/bin/python
"""Regenerates /verif/MANIFEST.json from the table below (kept here so the manifest stays consistent)."""
import json, os, importlib, sys
HERE = os.path.dirname(os.path.dirname(os.path.abspath(__file__)))
sys.path.insert(0, HERE)

NOTE = "CPython semantics (builtin exception hierarchy, GIL atomicity of single list/dict operations); sa/constfold.py, sa/cfg.py exception model and the reviewed tables (field types, benign operations) are trusted; calls on peer/user-supplied objects are external; no monkey-patching of rpyc at run time"
CLAIMS = {
 "C04": ("codec shape extraction (symbolic execution of the dump/load registry functions) + writer/reader table agreement + interval guards on length fields + call-graph effect closure of the decoder",
         "Decides R04.1-R04.7: dumpable()'s exact-type domain equals the dump registry; refusal is TypeError; for every registered type and every length/value class the emitted wire layout is consumed by the registered loader with the same struct/length/children and rebuilt as the same type; tag space unambiguous; every length field bounded by its guard; no partial operation (strict encode) in a dumper; decoder closure effect-free. Round-trip equality of runtime values is not decided (struct/codecs trusted).", NOTE),
 "C05": ("CFG path rules over the stream read/write loops and failure handlers; symbolic frame-layout agreement of Channel.send/recv",
         "Decides R05.1-R05.5 on SocketStream, PipeStream, Channel: bounded receive requests, byte accounting by bytes actually received/accepted, no early loop exit, zero-length read = EOF, retries leave the accounting alone, every failure path closes and raises EOFError, close() always marks closed, header(len(payload), flag)+payload+flusher written in order with complementary slices and read back symmetrically. Kernel fragmentation itself is not explored.", NOTE),
 "C06": ("sink enumeration over the handler call-graph closure + def-use/dominance in _access_attr + exhaustive abstract interpretation of _check_attr against the decision table of the statement + who-may-write analysis of configuration objects",
         "Decides R06.1-R06.7: complete mediation (no computed-name attribute access reachable from a handler outside the gate; default accessor only with the name _check_attr returned; text-type gate), consistent (hook, switch, operation) rows, the decision of _check_attr on all feasible valuations of its 11+ atoms x 3 operations, type-level hooks, Service set/del denial, restricted() guards, and isolation of per-connection configuration (fresh copy, no writer of DEFAULT_CONFIG or of shared mutable values). User-defined hooks are out of scope.", NOTE),
 "C07": ("effect/capability analysis over the resolved call graph from Connection._dispatch: dangerous sinks dominated by default-off configuration guards, fresh per-connection tables, path-based vetting of peer-named classes, computed-name lookups outside the policy",
         "Decides R07.1-R07.7 under the folded DEFAULT_CONFIG: dispatch-table integrity, malformed requests confined to the replying try, identifiers resolved only through per-connection fresh tables, mediated attribute access, pickle/import/eval sinks dominated by switches that default to False, the exception loader never calls a peer-named class and vets it on every path, no peer-named getattr on modules, effect-free decoder. What exposed service code does is out of scope.", NOTE),
 "C08": ("path counting of completed response sends on the typed-exception CFG of _dispatch_request; exception-routing of encode failures; def-use of sequence numbers; atomic pop routing",
         "Decides R08.1-R08.5: exactly one response on every normal path bearing the unmodified seq, handler at most once, MSG_REPLY only on the no-exception continuation, peer-data consumption inside the catch-all, encode failures of the reply answered with one MSG_EXCEPTION, responses routed by one dict.pop(seq), registration before transmission with unregistration on failure, sequence numbers from one next() on a per-connection count. Peer retransmission/undecodable frames are out of scope.", NOTE),
 "C11": ("must-pass-through rules over CFGs with exceptional edges out of every statement of close/_cleanup/serve (static analogue of fault injection) + interprocedural EOFError-escape summaries + who-may-call",
         "Decides R11.1-R11.5: close() is idempotent, sets the flag first and reaches _cleanup on every normal and exceptional path; _cleanup sets the flag before calling out, closes the channel, runs on_disconnect exactly once and clears the tables; every call in serve() out of which a transport EOFError can escape is covered by a handler that closes; serve_all/serve_threaded close in finally; Channel/ClosedFile delegation; waiters keep serving. Simultaneous close on two threads is not decided.", NOTE),
 "C12": ("typestate/lock-region and path rules over a typed-exception CFG of the send layer; who-may-call over the package",
         "Decides R12.1-R12.6 (send-lock pairing on all exits incl. exceptional, transport written only under the lock, enqueue-before-try-lock, no normal return without a queue re-check outside the lock or a failed try-lock, guarded pop, FIFO ends, non-blocking acquisition, atomic queue operations, popped item is what is sent) on every CFG path of the current source - the structural necessary conditions of the hand-off protocol; it does not enumerate schedules, so it decides the discipline, not the behaviour.", NOTE),
 "C13": ("lock-region, dominance and path-count rules over the CFG of serve(); publication-order dominance in AsyncResult.__call__; who-may-call for channel readers",
         "Decides R13.1-R13.7: receive-lock pairing on every exit, channel read only under the lock and only in serve(), dispatch after release with exactly one dispatch per received packet, try-acquire and wait() atomic under one condition block, notify_all after release on every exit of the locked region, value fields written before the ready flag, atomic correlation (shared with C08), background thread only through serve(). Schedules are not enumerated.", NOTE),
 "C14": ("event-ordering rule on the CFG of serve() (wake-up vs. dispatch of a consumed packet) + wait-loop shape rules",
         "Decides R14.1-R14.3. R14.1 fires on the pinned and current tree (notify_all precedes _dispatch with the lock released): recorded as a known finding (design-level race, DESIGN section 7 D4); any other violation still fails. Actual latency is not decided.", NOTE),
 "C19": ("translation validation: constant folding + codec/frame shape extraction of the current source compared row by row with a frozen reference of the published 5.x format (sa/ref/wire_5x.json, itself cross-validated against the documented hex example)",
         "Decides R19.1-R19.5: per registered type and length/value class the writer emits the published tag and length form (shortest form = the published interval map), every published tag has a loader of the published shape, frame header/flusher/threshold, MSG_/LABEL_/HANDLE_ values by name and by role (which id each proxy operation sends), dispatch table id->handler, message/request/box/id_pack tuple layouts. Renaming private identifiers is silent; any self-consistent renumbering fires.", NOTE + "; the reference table is the trusted oracle"),
}

def main():
    checks = []
    for pid in sorted(CLAIMS):
        tech, text, note = CLAIMS[pid]
        checks.append({
            "property_id": pid,
            "quick_cmd": "./check %s" % pid,
            "thorough_cmd": "./check %s --tier thorough" % pid,
            "evidence_file": "/verif/evidence/%s.json" % pid,
            "replay_cmd_template": "./check %s --explain {path}" % pid,
            "engine": "sa",
            "level_claimed": {"category": "translation_validation" if pid == "C19" else "other", "text": text,
                              "design_ref": "DESIGN.md section 3 (%s), section 4" % pid},
            "level_note": note,
            "technique": tech,
        })
    props = [json.loads(l)["id"] for l in open(os.path.join(HERE, "properties.jsonl"))]
    na = [{"property_id": p, "reason": NA.get(p, "check not built yet in this working session (static rules designed in DESIGN.md section 3; not claimed until the rule set is implemented and validated)")}
          for p in props if p not in CLAIMS]
    man = {
        "version": 1,
        "setup_cmd": "/venv/bin/python -B sa/selfcheck.py && /venv/bin/python -B sa/ref/refcodec.py",
        "hooks": {"guard": "RPYC_VERIF", "enable": "none needed: the checks are static and read /repo's working tree; no instrumentation is compiled in",
                  "baseline_off_cmd": "cd /repo && /venv/bin/python -m pytest -ra -q -p no:cacheprovider --timeout=900 --continue-on-collection-errors",
                  "source_commits": [], "add_only": True},
        "engines": [{"name": "sa", "path": "/verif/sa", "serves_properties": sorted(CLAIMS),
                     "kind_free_text": "repository-specific static analysis: ast loader + constant folder + typed-exception CFG + dominance/path/dataflow queries + per-property rules"}],
        "checks": checks,
        "notes": "Static analysis only (DESIGN.md). exit 0 held / known findings only; exit 1 VIOLATION; exit 2 ANALYSIS-ERROR (anchor vanished, floor not met). VERIF_REPO selects the tree (default /repo).",
        "not_applicable": na,
    }
    with open(os.path.join(HERE, "MANIFEST.json"), "w") as f:
        json.dump(man, f, indent=1)
    print("MANIFEST.json: %d checks, %d not_applicable" % (len(checks), len(na)))
NA = {}
main()

#!/bin/sh
# Runs the repository's test suite in a private network namespace (fixed TCP ports cannot collide with other runs).
# usage: tools/run_tests.sh [repo dir]   -- development helper, not referenced by MANIFEST.json
D="${1:-/repo}"
exec unshare -n sh -c "ip link set lo up; ip route add default dev lo 2>/dev/null; cd '$D' && PYTHONPATH='$D' /venv/bin/python -m pytest -q -p no:cacheprovider --timeout=120 --continue-on-collection-errors --deselect tests/test_gdb.py -rA tests 2>&1"

#!/venv/bin/python
"""Freezes the list of function qualnames of the reference tree (/repo HEAD at the time the rules were written) into
sa/ref/known_functions.json. Private functions that are NOT in this list are treated as helpers introduced by a later
refactoring and are inlined before the analyses run (sa/inline.py)."""
import json, os, sys
sys.path.insert(0, os.path.dirname(os.path.dirname(os.path.abspath(__file__))))
from sa.loader import Repo
r = Repo("/repo", inline=False)
out = os.path.join(os.path.dirname(os.path.dirname(os.path.abspath(__file__))), "sa", "ref", "known_functions.json")
json.dump(sorted(r.funcs), open(out, "w"), indent=0)
print(len(r.funcs), "functions")

import ast
loc = {}
for q, f in r.funcs.items():
    names = set()
    for n in ast.walk(f.node):
        if isinstance(n, ast.Name) and isinstance(n.ctx, (ast.Store, ast.Del)):
            names.add(n.id)
        elif isinstance(n, ast.ExceptHandler) and n.name:
            names.add(n.name)
    loc[q] = sorted(names)
out2 = os.path.join(os.path.dirname(out), "known_locals.json")
json.dump(loc, open(out2, "w"), indent=0, sort_keys=True)
print(sum(len(v) for v in loc.values()), "locals")

from sa import renames
snap = renames.snapshot({m.name: ast.parse(m.text) for m in r.modules.values()})
out3 = os.path.join(os.path.dirname(out), "known_members.json")
json.dump(snap, open(out3, "w"), indent=0, sort_keys=True)
print(len(snap), "modules in known_members.json")

from sa import callforms
kc = callforms.compute_known(r)
out4 = os.path.join(os.path.dirname(out), "known_callforms.json")
json.dump(kc, open(out4, "w"), indent=0, sort_keys=True)
print(len(kc), "callees with keyword-passed parameters in known_callforms.json")

# parameter lists of every function of the reference tree (signature-drift detection: a rule written against the positional
# reading of a private function's parameters cannot be trusted once an IDE "change signature" reordered them)
out5 = os.path.join(os.path.dirname(out), "known_signatures.json")
sig = {}
for q, f in r.funcs.items():
    a = f.node.args
    sig[q] = [x.arg for x in a.posonlyargs + a.args] + (["*" + a.vararg.arg] if a.vararg else []) + \
        [x.arg for x in a.kwonlyargs] + (["**" + a.kwarg.arg] if a.kwarg else [])
json.dump(sig, open(out5, "w"), indent=0, sort_keys=True)
print(len(sig), "signatures in known_signatures.json")

#!/venv/bin/python
"""Freezes the list of function qualnames of the reference tree (/repo HEAD at the time the rules were written) into
sa/ref/known_functions.json. Private functions that are NOT in this list are treated as helpers introduced by a later
refactoring and are inlined before the analyses run (sa/inline.py)."""
import json, os, sys
sys.path.insert(0, os.path.dirname(os.path.dirname(os.path.abspath(__file__))))
from sa.loader import Repo
r = Repo("/repo", inline=False)
out = os.path.join(os.path.dirname(os.path.dirname(os.path.abspath(__file__))), "sa", "ref", "known_functions.json")
json.dump(sorted(r.funcs), open(out, "w"), indent=0)
print(len(r.funcs), "functions")

"""Triage evidence for the findings D1..D11 of DESIGN.md section 7 (NOT a check).

Each function exercises the real code in $VERIF_REPO (default /repo) and prints
`Dn REPRODUCED ...` when the defect shows, `Dn not reproduced` otherwise.
"""
import logging
import os
import socket
import struct
import sys
import threading
import time
import types

sys.path.insert(0, os.environ.get("VERIF_REPO", "/repo"))
logging.disable(logging.CRITICAL)
import rpyc  # noqa: E402
from rpyc.core import brine, consts, Channel  # noqa: E402
from rpyc.core.stream import Stream  # noqa: E402


def report(tag, ok, what):
    print("%s %s: %s" % (tag, "REPRODUCED" if ok else "not reproduced", what))


def d1():
    try:
        brine.dump("\ud800")
        ok = False
    except UnicodeEncodeError:
        ok = brine.dumpable("\ud800")
    report("D1", ok, "dumpable('\\ud800') is True but dump raises UnicodeEncodeError")


def d2():
    class S(rpyc.Service):
        def exposed_bad(self):
            return "\ud800"

        def exposed_ok(self):
            return 1
    c = rpyc.connect_thread(remote_service=S)
    c._config["sync_request_timeout"] = 3
    assert c.root.ok() == 1
    sys.stderr = open(os.devnull, "w")
    try:
        c.root.bad()
        first = "value"
    except BaseException as e:
        first = type(e).__name__
    try:
        c.root.ok()
        after = "usable"
    except BaseException as e:
        after = type(e).__name__
    sys.stderr = sys.__stderr__
    report("D2", after != "usable", "un-encodable reply: requester got %s, next request got %s" % (first, after))


class MemStream(Stream):
    MAX_IO_CHUNK = 64000

    def __init__(self):
        self.inbuf = b""
        self.out = []
        self._closed = False
        self.fail_write = False

    def close(self):
        self._closed = True

    @property
    def closed(self):
        return self._closed

    def fileno(self):
        return 0

    def poll(self, timeout):
        if self._closed:
            raise EOFError("closed")
        return bool(self.inbuf)

    def read(self, n):
        if self._closed or len(self.inbuf) < n:
            self.close()
            raise EOFError("eof")
        d, self.inbuf = self.inbuf[:n], self.inbuf[n:]
        return d

    def write(self, d):
        if self._closed:
            raise EOFError("closed")
        if self.fail_write:
            self.close()
            raise EOFError("write failed")
        self.out.append(d)


def d3():
    hooks = []

    class S(rpyc.Service):
        def on_disconnect(self, conn):
            hooks.append(1)
    st = MemStream()
    conn = S()._connect(Channel(st, compress=False), {})
    res = conn.async_request(consts.HANDLE_PING, "x")
    payload = brine.dump((consts.MSG_REQUEST, 7, (consts.HANDLE_PING, conn._box(("hi",)))))
    st.inbuf = struct.pack("!LB", len(payload), 0) + payload + b"\n"
    st.fail_write = True
    try:
        res.wait()
        exc = None
    except EOFError as e:
        exc = e
    report("D3", exc is not None and not conn.closed and not hooks,
           "reply write failed inside serve() under wait(): EOFError raised, conn.closed=%s, hook runs=%d"
           % (conn.closed, len(hooks)))


def d4():
    class S(rpyc.Service):
        def exposed_slow(self):
            time.sleep(0.5)
            return 42
    c = rpyc.connect_thread(remote_service=S)
    root = c.root
    orig = c._dispatch

    def slow_dispatch(data):  # widen the window between notify_all() and _dispatch()
        time.sleep(0.3)
        return orig(data)
    c._dispatch = slow_dispatch
    threading.Thread(target=lambda: c.serve(10), daemon=True).start()
    time.sleep(0.2)
    t0 = time.time()
    res = c.async_request(consts.HANDLE_CALLATTR, root, "slow", (), ())
    res.set_expiry(4)
    v = res.value
    dt = time.time() - t0
    report("D4", dt > 3, "reply dispatched at ~0.8s by another thread, waiter returned %r after %.1fs" % (v, dt))


def d5():
    from rpyc.utils.server import ThreadPoolServer
    sv = ThreadPoolServer(rpyc.SlaveService, hostname="127.0.0.1", port=0, auto_register=False)
    sv._start_in_thread()
    cl = rpyc.classic.connect("127.0.0.1", sv.port)
    cl._config["sync_request_timeout"] = 3
    cl.modules.os.getpid()
    sv.close()
    time.sleep(0.3)
    t0 = time.time()
    try:
        cl.modules.os.getpid()
        out = "still served"
    except BaseException as e:
        out = type(e).__name__
    report("D5", out != "EOFError", "after ThreadPoolServer.close() client request -> %s after %.1fs" % (out, time.time() - t0))


def d6():
    from rpyc.utils.registry import UDPRegistryServer
    srv = UDPRegistryServer(host="127.0.0.1", port=0)
    sys.stderr = open(os.devnull, "w")
    t = threading.Thread(target=srv.start, daemon=True)
    t.start()
    time.sleep(0.3)
    s = socket.socket(socket.AF_INET, socket.SOCK_DGRAM)
    s.sendto(brine.dump(("RPYC", 5, ())), ("127.0.0.1", srv.port))
    time.sleep(0.5)
    sys.stderr = sys.__stderr__
    report("D6", not t.is_alive(), "datagram ('RPYC', 5, ()) -> registry main loop alive: %s" % t.is_alive())


def d7():
    from rpyc.utils.registry import TCPRegistryServer, TCPRegistryClient
    srv = TCPRegistryServer(host="127.0.0.1", port=0)
    threading.Thread(target=srv.start, daemon=True).start()
    time.sleep(0.3)
    idle = socket.create_connection(("127.0.0.1", srv.port))
    time.sleep(0.3)
    c = TCPRegistryClient("127.0.0.1", port=srv.port, timeout=2)
    ok_before_reply = c.register(("foo",), 1234)
    t0 = time.time()
    r = c.discover("foo")
    report("D7", r == (), "one silent TCP client connected: discover -> %r after %.1fs (register returned %s)"
           % (r, time.time() - t0, ok_before_reply))
    idle.close()


def d8():
    from rpyc.utils.registry import RegistryServer

    class R(RegistryServer):
        def __init__(self):
            self.services = {}
            self.pruning_timeout = 100
            self.logger = logging.getLogger("x")
            self.log = []

        def on_service_removed(self, n, a):
            self.log.append((n, a))
    r = R()
    r.cmd_register("h1", ("a",), 1)
    r.cmd_register("h2", ("b",), 2)
    r.cmd_unregister("h1", 1)
    report("D8", ("B", ("h1", 1)) in r.log, "unregister of h1:1 (member of A only) notified removals: %r" % (r.log,))


def d9():
    import resource
    from rpyc.utils.registry import TCPRegistryServer
    srv = TCPRegistryServer(host="127.0.0.1", port=0)
    threading.Thread(target=srv.start, daemon=True).start()
    time.sleep(0.3)
    for _ in range(20):
        s = socket.create_connection(("127.0.0.1", srv.port), timeout=1)
        s.sendall(brine.dump(("NOPE", "QUERY", ("foo",))))
        time.sleep(0.02)
        s.close()
    time.sleep(0.2)
    n = len(srv._connected_sockets)
    report("D9", n >= 20, "20 bad-magic TCP requests -> %d sockets still held by the registry" % n)
    del resource


def d10():
    import concurrent.futures  # noqa: F401  (the host application happens to use it)
    from rpyc.utils.server import ThreadedServer
    sv = ThreadedServer(rpyc.VoidService, hostname="127.0.0.1", port=0, auto_register=False)
    sv._start_in_thread()
    s = socket.create_connection(("127.0.0.1", sv.port))

    def send(msg):
        d = brine.dump(msg)
        s.sendall(struct.pack("!LB", len(d), 0) + d + b"\n")

    def recv():
        h = s.recv(5)
        n, _ = struct.unpack("!LB", h)
        d = b""
        while len(d) < n + 1:
            d += s.recv(n + 1 - len(d))
        return brine.load(d[:-1])
    before = "concurrent.futures.process" in sys.modules
    idp = ("concurrent.futures.ProcessPoolExecutor", 12345, 67890)
    send((consts.MSG_REQUEST, 0, (consts.HANDLE_PING, (consts.LABEL_TUPLE, ((consts.LABEL_REMOTE_REF, idp),)))))
    m = recv()  # server asks us to INSPECT
    send((consts.MSG_REPLY, m[1], (consts.LABEL_VALUE, ())))
    time.sleep(0.5)
    after = "concurrent.futures.process" in sys.modules
    report("D10", (not before) and after, "VoidService/default config: peer-chosen name made the server import "
           "concurrent.futures.process (before=%s after=%s)" % (before, after))
    sv.close()


def d11():
    from rpyc.lib import get_id_pack
    try:
        get_id_pack(types.ModuleType("module"))
        ok = False
    except NameError:
        ok = True
    report("D11", ok, "get_id_pack(ModuleType('module')) raises NameError (obj__module__)")


ALL = dict(D1=d1, D2=d2, D3=d3, D4=d4, D5=d5, D6=d6, D7=d7, D8=d8, D9=d9, D10=d10, D11=d11)

if __name__ == "__main__":
    names = sys.argv[1:] or list(ALL)
    for n in names:
        try:
            ALL[n]()
        except Exception as e:  # a repro that errors out is itself information
            print("%s ERROR %s: %s" % (n, type(e).__name__, e))
    os._exit(0)

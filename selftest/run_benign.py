#!/venv/bin/python
"""Runs the registered quick checks against every behaviour-preserving patch in /verif/benign/<id>/patch.diff (each applied
to a scratch copy of the package). Every check must stay silent (exit 0)."""
import json, os, shutil, subprocess, sys, tempfile
from concurrent.futures import ThreadPoolExecutor
VERIF = os.path.dirname(os.path.dirname(os.path.abspath(__file__)))

def run_one(bid, props):
    d = os.path.join(VERIF, "benign", bid)
    tmp = tempfile.mkdtemp(prefix="benrun_", dir="/tmp")
    try:
        shutil.copytree("/repo/rpyc", os.path.join(tmp, "rpyc"))
        r = subprocess.run("patch -p1 -s --no-backup-if-mismatch -d %s < %s" % (tmp, os.path.join(d, "patch.diff")),
                           shell=True, capture_output=True, text=True)
        if r.returncode != 0:
            return bid, None, "patch does not apply"
        res = {}
        for p in props:
            env = dict(os.environ, VERIF_REPO=tmp, VERIF_EVIDENCE_DIR=os.path.join(tmp, "ev"))
            c = subprocess.run([os.path.join(VERIF, "check"), p], capture_output=True, text=True, env=env)
            if c.returncode != 0:
                res[p] = (c.returncode, [l.strip() for l in c.stdout.splitlines() if ("  R" in l and "floor" not in l) or "ANALYSIS" in l][:3])
        return bid, res, None
    finally:
        shutil.rmtree(tmp, ignore_errors=True)

def main():
    props = [c["property_id"] for c in json.load(open(os.path.join(VERIF, "MANIFEST.json")))["checks"]]
    ids = [a for a in sys.argv[1:] if not a.startswith("--")] or sorted(os.listdir(os.path.join(VERIF, "benign")))
    with ThreadPoolExecutor(15) as ex:
        results = list(ex.map(lambda b: run_one(b, props), ids))
    bad = 0
    for bid, res, err in results:
        summ = ""
        try:
            summ = json.load(open(os.path.join(VERIF, "benign", bid, "meta.json"))).get("summary", "")[:90]
        except Exception:
            pass
        if err:
            print("%-8s ERROR %s" % (bid, err)); continue
        if not res:
            print("%-8s silent   (%s)" % (bid, summ))
        else:
            bad += 1
            print("%-8s ALARM %s  (%s)" % (bid, {p: rc for p, (rc, _) in res.items()}, summ))
            for p, (rc, lines) in res.items():
                for l in lines[:2]:
                    print("      %s[%d]: %s" % (p, rc, l[:200]))
    print("%d/%d benign patches silent" % (len(results) - bad, len(results)))
main()

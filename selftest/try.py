"""dev helper: run one property's rules on the current tree with in-memory text substitutions.
usage: try.py C12 rpyc/core/protocol.py 'old text' 'new text' [file old new ...]"""
import sys, os
sys.path.insert(0, os.path.dirname(os.path.dirname(os.path.abspath(__file__))))
from sa.main import run_property
from sa.loader import AnalysisError
from sa import report as R

def main():
    pid = sys.argv[1]
    root = os.environ.get("VERIF_REPO", "/repo")
    ov = {}
    a = sys.argv[2:]
    for i in range(0, len(a) - 2, 3):
        rel, old, new = a[i], a[i+1], a[i+2]
        text = ov.get(rel) or open(os.path.join(root, rel)).read()
        old = old.encode().decode('unicode_escape'); new = new.encode().decode('unicode_escape')
        if old not in text:
            print("PATTERN NOT FOUND:", old); sys.exit(3)
        ov[rel] = text.replace(old, new, 1)
    rep, ctx, err = run_property(pid, "quick", root, ov)
    kn, new = R.classify(rep, R.load_known())
    if err and not new:
        print("ANALYSIS-ERROR", err); sys.exit(2)
    print("%d obligations, %d failed (%d known)" % (len(rep.obs), len(rep.failed()), len(kn)))
    for o in new:
        print(" FAIL", o.rule, "|", o.key, "|", o.msg[:200], "|", o.loc)
        if o.witness:
            for w in (o.witness if isinstance(o.witness, list) else [o.witness])[:12]:
                print("       |", w)
    sys.exit(1 if new else 0)
main()

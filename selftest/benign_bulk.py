#!/venv/bin/python
"""Bulk behaviour-preserving transformations of the whole package (scratch copy under /tmp, removed afterwards):
  reformat  : every module re-emitted by ast.unparse (comments/formatting/line numbers change)
  rename    : every function's local variables renamed (x -> x_r), parameters and attributes untouched
All registered quick checks must stay silent (exit 0) on both trees. usage: benign_bulk.py [reformat|rename] [--tests]"""
import ast, builtins, json, os, shutil, subprocess, sys, tempfile
VERIF = os.path.dirname(os.path.dirname(os.path.abspath(__file__)))


class Renamer(ast.NodeTransformer):
    def __init__(self, names):
        self.names = names

    def visit_Name(self, n):
        if n.id in self.names:
            n.id = n.id + "_r"
        return n

    def visit_ExceptHandler(self, n):
        if n.name in self.names:
            n.name = n.name + "_r"
        self.generic_visit(n)
        return n


def locals_of(fn):
    params = set()
    def add_params(f):
        a = f.args
        for x in a.posonlyargs + a.args + a.kwonlyargs:
            params.add(x.arg)
        if a.vararg: params.add(a.vararg.arg)
        if a.kwarg: params.add(a.kwarg.arg)
    stored = set()
    declared = set()
    defs = set()
    for n in ast.walk(fn):
        if isinstance(n, (ast.FunctionDef, ast.Lambda, ast.AsyncFunctionDef)):
            add_params(n)
            if n is not fn and hasattr(n, "name"):
                defs.add(n.name)
        elif isinstance(n, ast.ClassDef):
            defs.add(n.name)
        elif isinstance(n, ast.Name) and isinstance(n.ctx, (ast.Store, ast.Del)):
            stored.add(n.id)
        elif isinstance(n, ast.ExceptHandler) and n.name:
            stored.add(n.name)
        elif isinstance(n, (ast.Global, ast.Nonlocal)):
            declared |= set(n.names)
        elif isinstance(n, (ast.Import, ast.ImportFrom)):
            for al in n.names:
                defs.add((al.asname or al.name).split(".")[0])
    # names assigned inside class bodies nested in the function are attributes, keep them
    for n in ast.walk(fn):
        if isinstance(n, ast.ClassDef):
            for m in ast.walk(n):
                if isinstance(m, ast.Name) and isinstance(m.ctx, ast.Store):
                    stored.discard(m.id)
    return {x for x in stored - params - declared - defs if not x.startswith("__") and x not in dir(builtins)}


def transform(text, mode):
    tree = ast.parse(text)
    if mode == "rename":
        for node in ast.walk(tree):
            if isinstance(node, ast.ClassDef):
                for m in node.body:
                    if isinstance(m, ast.FunctionDef):
                        Renamer(locals_of(m)).visit(m)
        for m in tree.body:
            if isinstance(m, ast.FunctionDef):
                Renamer(locals_of(m)).visit(m)
    return ast.unparse(tree) + "\n"


def main():
    mode = sys.argv[1] if len(sys.argv) > 1 and not sys.argv[1].startswith("-") else "rename"
    tmp = tempfile.mkdtemp(prefix="benign_", dir="/tmp")
    try:
        for sub in ("rpyc", "tests", "bin"):
            if os.path.isdir(os.path.join("/repo", sub)):
                shutil.copytree(os.path.join("/repo", sub), os.path.join(tmp, sub))
        n = 0
        for dp, _, files in os.walk(os.path.join(tmp, "rpyc")):
            for fn in files:
                if fn.endswith(".py"):
                    p = os.path.join(dp, fn)
                    src = open(p, encoding="utf8").read()
                    if "exec(" in src and fn == "compat.py":
                        continue
                    new = transform(src, mode)
                    compile(new, p, "exec")
                    open(p, "w", encoding="utf8").write(new)
                    n += 1
        print("transformed %d modules (%s) in %s" % (n, mode, tmp))
        if "--tests" in sys.argv:
            r = subprocess.run([os.path.join(VERIF, "tools", "run_tests.sh"), tmp], capture_output=True, text=True)
            print("tests:", [l for l in r.stdout.splitlines() if " passed" in l][-1:])
        props = [c["property_id"] for c in json.load(open(os.path.join(VERIF, "MANIFEST.json")))["checks"]]
        bad = 0
        for p in props:
            env = dict(os.environ, VERIF_REPO=tmp, VERIF_EVIDENCE_DIR=os.path.join(tmp, "ev"))
            c = subprocess.run([os.path.join(VERIF, "check"), p], capture_output=True, text=True, env=env)
            if c.returncode != 0:
                bad += 1
                print("== %s rc=%d" % (p, c.returncode))
                for l in c.stdout.splitlines():
                    if ("  R" in l and "floor" not in l) or "ANALYSIS" in l:
                        print("   ", l.strip()[:260])
        print("%s: %d/%d checks silent" % (mode, len(props) - bad, len(props)))
    finally:
        shutil.rmtree(tmp, ignore_errors=True)
main()

#!/venv/bin/python
"""Bulk behaviour-preserving transformations of the whole package (scratch copy under /tmp, removed afterwards):
  reformat  : every module re-emitted by ast.unparse (comments/formatting/line numbers change)
  rename    : every function's local variables renamed (x -> x_r), parameters and attributes untouched
All registered quick checks must stay silent (exit 0) on both trees. usage: benign_bulk.py [reformat|rename] [--tests]"""
import ast, builtins, json, os, shutil, subprocess, sys, tempfile
VERIF = os.path.dirname(os.path.dirname(os.path.abspath(__file__)))


class Renamer(ast.NodeTransformer):
    def __init__(self, names):
        self.names = names

    def visit_Name(self, n):
        if n.id in self.names:
            n.id = n.id + "_r"
        return n

    def visit_ExceptHandler(self, n):
        if n.name in self.names:
            n.name = n.name + "_r"
        self.generic_visit(n)
        return n


def locals_of(fn):
    params = set()
    def add_params(f):
        a = f.args
        for x in a.posonlyargs + a.args + a.kwonlyargs:
            params.add(x.arg)
        if a.vararg: params.add(a.vararg.arg)
        if a.kwarg: params.add(a.kwarg.arg)
    stored = set()
    declared = set()
    defs = set()
    for n in ast.walk(fn):
        if isinstance(n, (ast.FunctionDef, ast.Lambda, ast.AsyncFunctionDef)):
            add_params(n)
            if n is not fn and hasattr(n, "name"):
                defs.add(n.name)
        elif isinstance(n, ast.ClassDef):
            defs.add(n.name)
        elif isinstance(n, ast.Name) and isinstance(n.ctx, (ast.Store, ast.Del)):
            stored.add(n.id)
        elif isinstance(n, ast.ExceptHandler) and n.name:
            stored.add(n.name)
        elif isinstance(n, (ast.Global, ast.Nonlocal)):
            declared |= set(n.names)
        elif isinstance(n, (ast.Import, ast.ImportFrom)):
            for al in n.names:
                defs.add((al.asname or al.name).split(".")[0])
    # names assigned inside class bodies nested in the function are attributes, keep them
    for n in ast.walk(fn):
        if isinstance(n, ast.ClassDef):
            for m in ast.walk(n):
                if isinstance(m, ast.Name) and isinstance(m.ctx, ast.Store):
                    stored.discard(m.id)
    return {x for x in stored - params - declared - defs if not x.startswith("__") and x not in dir(builtins)}


def _terminal(stmts):
    return bool(stmts) and isinstance(stmts[-1], (ast.Return, ast.Raise, ast.Continue, ast.Break))


def _pure(e):
    return isinstance(e, (ast.Name, ast.Constant)) or (isinstance(e, ast.Attribute) and _pure(e.value))


class FlipCmp(ast.NodeTransformer):
    """`a is b` <-> `b is a`; `a == K` <-> `K == a` for constants; `a < b` <-> `b > a` on pure operands"""
    def visit_Compare(self, n):
        self.generic_visit(n)
        if len(n.ops) != 1:
            return n
        op, l, r = n.ops[0], n.left, n.comparators[0]
        if not (_pure(l) and _pure(r)):
            return n
        if isinstance(op, (ast.Is, ast.IsNot)) or (isinstance(op, (ast.Eq, ast.NotEq)) and (
                isinstance(l, ast.Constant) or isinstance(r, ast.Constant))):
            n.left, n.comparators = r, [l]
        elif isinstance(op, (ast.Lt, ast.Gt, ast.LtE, ast.GtE)):
            n.left, n.comparators = r, [l]
            n.ops = [{ast.Lt: ast.Gt, ast.Gt: ast.Lt, ast.LtE: ast.GtE, ast.GtE: ast.LtE}[type(op)]()]
        return n


class BlockRewriter(ast.NodeTransformer):
    """applies self.rewrite(list of statements) -> list to every statement list inside functions"""
    def generic_visit(self, node):
        super().generic_visit(node)
        for fld in ("body", "orelse", "finalbody"):
            v = getattr(node, fld, None)
            if isinstance(v, list) and v and isinstance(v[0], ast.stmt) and not isinstance(node, (ast.Module, ast.ClassDef)):
                setattr(node, fld, self.rewrite(v))
        return node


class EarlyRet(BlockRewriter):
    """`if c: ...; return` + else-branch -> the else-branch is dedented after the if"""
    def rewrite(self, stmts):
        out = []
        for st in stmts:
            if isinstance(st, ast.If) and st.orelse and _terminal(st.body):
                rest, st.orelse = st.orelse, []
                out.append(st)
                out.extend(rest)
            else:
                out.append(st)
        return out


class Elseify(BlockRewriter):
    """`if c: ...; return` followed by more statements -> those statements become the else-branch"""
    def rewrite(self, stmts):
        for i, st in enumerate(stmts):
            if isinstance(st, ast.If) and not st.orelse and _terminal(st.body) and stmts[i + 1:]:
                st.orelse = self.rewrite(stmts[i + 1:])
                return stmts[:i + 1]
        return stmts


class SwapIf(ast.NodeTransformer):
    """`if c: A else: B` -> `if not c: B else: A` (not for elif chains); `not not c` avoided"""
    def visit_If(self, n):
        self.generic_visit(n)
        if n.orelse and not (len(n.orelse) == 1 and isinstance(n.orelse[0], ast.If)) and not (
                len(n.body) == 1 and isinstance(n.body[0], ast.If)):
            t = n.test
            n.test = t.operand if isinstance(t, ast.UnaryOp) and isinstance(t.op, ast.Not) else ast.UnaryOp(op=ast.Not(), operand=t)
            n.body, n.orelse = n.orelse, n.body
        return n


class DeMorgan(ast.NodeTransformer):
    """`not a or not b` -> `not (a and b)`; `not (a and b)` -> `not a or not b` (and the duals)"""
    def visit_BoolOp(self, n):
        self.generic_visit(n)
        if all(isinstance(v, ast.UnaryOp) and isinstance(v.op, ast.Not) for v in n.values):
            inner = ast.BoolOp(op=ast.And() if isinstance(n.op, ast.Or) else ast.Or(), values=[v.operand for v in n.values])
            new = ast.UnaryOp(op=ast.Not(), operand=inner)
            new._made = True
            return new
        return n

    def visit_UnaryOp(self, n):
        if isinstance(n.op, ast.Not) and isinstance(n.operand, ast.BoolOp) and not getattr(n, "_made", False):
            b = n.operand
            vals = [self.visit(v) for v in b.values]
            neg = [v.operand if isinstance(v, ast.UnaryOp) and isinstance(v.op, ast.Not) else ast.UnaryOp(op=ast.Not(), operand=v)
                   for v in vals]
            new = ast.BoolOp(op=ast.Or() if isinstance(b.op, ast.And) else ast.And(), values=neg)
            return new
        self.generic_visit(n)
        return n


class TmpVar(BlockRewriter):
    """`f(a, g(x))` -> `_tN = g(x); f(a, _tN)` when every other argument is a pure name/constant/attribute"""
    counter = 0

    def rewrite(self, stmts):
        out = []
        for st in stmts:
            call = None
            if isinstance(st, (ast.Expr, ast.Return)) and isinstance(st.value, ast.Call):
                call = st.value
            elif isinstance(st, ast.Assign) and isinstance(st.value, ast.Call):
                call = st.value
            if call is not None and not call.keywords and _pure(call.func):
                nested = [i for i, a in enumerate(call.args) if isinstance(a, ast.Call)]
                if len(nested) == 1 and all(_pure(a) for i, a in enumerate(call.args) if i != nested[0]):
                    TmpVar.counter += 1
                    nm = "_t%d" % TmpVar.counter
                    out.append(ast.Assign(targets=[ast.Name(id=nm, ctx=ast.Store())], value=call.args[nested[0]], lineno=st.lineno))
                    call.args[nested[0]] = ast.Name(id=nm, ctx=ast.Load())
            out.append(st)
        return out


class WithLock(BlockRewriter):
    """`with self.<x>lock/event/cond:` (no `as`) -> `self.x.acquire(); try: BODY finally: self.x.release()`"""
    def rewrite(self, stmts):
        out = []
        for st in stmts:
            if isinstance(st, ast.With) and len(st.items) == 1 and st.items[0].optional_vars is None and \
                    isinstance(st.items[0].context_expr, ast.Attribute) and isinstance(st.items[0].context_expr.value, ast.Name) and \
                    st.items[0].context_expr.value.id == "self" and any(
                        k in st.items[0].context_expr.attr.lower() for k in ("lock", "event", "cond")):
                e = st.items[0].context_expr
                acq = ast.Expr(value=ast.Call(func=ast.Attribute(value=e, attr="acquire", ctx=ast.Load()), args=[], keywords=[]))
                rel = ast.Expr(value=ast.Call(func=ast.Attribute(value=ast.Attribute(value=ast.Name(id="self", ctx=ast.Load()),
                                                                                   attr=e.attr, ctx=ast.Load()),
                                                                 attr="release", ctx=ast.Load()), args=[], keywords=[]))
                out.append(ast.copy_location(acq, st))
                out.append(ast.copy_location(ast.Try(body=st.body, handlers=[], orelse=[], finalbody=[rel]), st))
            else:
                out.append(st)
        return out


class PyUpgrade(ast.NodeTransformer):
    """what pyupgrade --py3-plus does: `super(C, self)` -> `super()` inside methods of C, `class X(object)` -> `class X`,
    `set([a, b])` -> `{a, b}`, `dict((k, v) for ..)` -> `{k: v for ..}`, `"%s" % (x,)` untouched (text must stay identical)"""
    def __init__(self):
        self.cls = []

    def visit_ClassDef(self, n):
        n.bases = [b for b in n.bases if not (isinstance(b, ast.Name) and b.id == "object")] if not n.keywords or True else n.bases
        self.cls.append(n.name)
        self.generic_visit(n)
        self.cls.pop()
        return n

    def visit_FunctionDef(self, n):
        first = n.args.args[0].arg if n.args.args else None
        saved = getattr(self, "first", None)
        # nested functions have no implicit __class__ cell for zero-argument super(): keep the explicit form there
        self.first = first if self.cls and getattr(self, "depth", 0) == 0 else None
        self.depth = getattr(self, "depth", 0) + 1
        self.generic_visit(n)
        self.depth -= 1
        self.first = saved
        return n

    def visit_Call(self, n):
        self.generic_visit(n)
        if isinstance(n.func, ast.Name) and n.func.id == "super" and len(n.args) == 2 and self.cls and \
                isinstance(n.args[0], ast.Name) and n.args[0].id == self.cls[-1] and isinstance(n.args[1], ast.Name) and \
                n.args[1].id == getattr(self, "first", None):
            n.args = []
        if isinstance(n.func, ast.Name) and n.func.id in ("set",) and len(n.args) == 1 and not n.keywords and \
                isinstance(n.args[0], (ast.List, ast.Tuple)) and n.args[0].elts and \
                not any(isinstance(e, ast.Starred) for e in n.args[0].elts):
            return ast.copy_location(ast.Set(elts=n.args[0].elts), n)
        if isinstance(n.func, ast.Name) and n.func.id == "dict" and len(n.args) == 1 and not n.keywords and \
                isinstance(n.args[0], ast.GeneratorExp) and isinstance(n.args[0].elt, ast.Tuple) and len(n.args[0].elt.elts) == 2:
            g = n.args[0]
            return ast.copy_location(ast.DictComp(key=g.elt.elts[0], value=g.elt.elts[1], generators=g.generators), n)
        return n


class TupleAssign(ast.NodeTransformer):
    """two consecutive assignments `a = x; b = y` with plain right-hand sides (names, constants, attribute chains) where y does
    not read a (nor anything a's store could change) become `a, b = x, y`"""
    @staticmethod
    def _pure(e):
        if isinstance(e, ast.Constant):
            return True
        while isinstance(e, ast.Attribute):
            e = e.value
        return isinstance(e, ast.Name)

    def _merge(self, body):
        out = []
        i = 0
        while i < len(body):
            a = body[i]
            b = body[i + 1] if i + 1 < len(body) else None
            if isinstance(a, ast.Assign) and isinstance(b, ast.Assign) and len(a.targets) == 1 and len(b.targets) == 1 and \
                    all(isinstance(t, (ast.Name, ast.Attribute)) and self._pure(t) for t in (a.targets[0], b.targets[0])) and \
                    self._pure(a.value) and self._pure(b.value):
                ta, tb = ast.unparse(a.targets[0]), ast.unparse(b.targets[0])
                vb = ast.unparse(b.value)
                if ta != tb and not (vb == ta or vb.startswith(ta + ".") or ta.startswith(vb + ".")) and \
                        not isinstance(b.value, ast.Constant) or (isinstance(b.value, ast.Constant) and ta != tb):
                    if not (vb == ta or vb.startswith(ta + ".")):
                        new = ast.Assign(targets=[ast.Tuple(elts=[a.targets[0], b.targets[0]], ctx=ast.Store())],
                                         value=ast.Tuple(elts=[a.value, b.value], ctx=ast.Load()))
                        out.append(ast.copy_location(new, a))
                        i += 2
                        continue
            out.append(a)
            i += 1
        return out

    def generic_visit(self, node):
        super().generic_visit(node)
        for fld in ("body", "orelse", "finalbody"):
            v = getattr(node, fld, None)
            if isinstance(v, list) and v and isinstance(v[0], ast.stmt):
                setattr(node, fld, self._merge(v))
        return node


class KwCalls(ast.NodeTransformer):
    """inside a class, `self.m(a, b)` for a method m of that class with plain positional parameters becomes `self.m(p=a, q=b)`
    (keywords in parameter order: same evaluation order). Private methods only (no subclass outside the package overrides them)."""
    def visit_ClassDef(self, node):
        sigs = {}
        for st in node.body:
            if isinstance(st, ast.FunctionDef) and st.name.startswith("_") and not st.name.startswith("__") and \
                    not st.args.vararg and not st.args.kwarg and not st.args.kwonlyargs and not st.decorator_list and \
                    not st.name.startswith("_handle_") and not st.name.startswith("_rpyc_"):
                sigs[st.name] = [a.arg for a in st.args.args][1:]
        saved = getattr(self, "sigs", None)
        self.sigs = sigs
        self.generic_visit(node)
        self.sigs = saved
        return node

    def visit_Call(self, node):
        self.generic_visit(node)
        sigs = getattr(self, "sigs", None)
        if sigs and isinstance(node.func, ast.Attribute) and isinstance(node.func.value, ast.Name) and node.func.value.id == "self" and \
                node.func.attr in sigs and node.args and not node.keywords and not any(isinstance(a, ast.Starred) for a in node.args) and \
                len(node.args) <= len(sigs[node.func.attr]):
            names = sigs[node.func.attr]
            node.keywords = [ast.keyword(arg=n, value=a) for n, a in zip(names, node.args)]
            node.args = []
        return node


class FStrings(ast.NodeTransformer):
    """`"a %s b %r" % (x, y)` (only %s / %r directives, literal left operand, tuple or single non-tuple right operand) becomes the
    f-string `f"a {x!s} b {y!r}"` - wait: %s calls str(), {x!s} calls str() then format(): identical text"""
    def visit_BinOp(self, node):
        self.generic_visit(node)
        if not (isinstance(node.op, ast.Mod) and isinstance(node.left, ast.Constant) and isinstance(node.left.value, str)):
            return node
        fmt = node.left.value
        import re as _re
        parts = _re.split(r"(%[sr])", fmt)
        if "%" in "".join(p for p in parts if p not in ("%s", "%r")):
            return node
        n_dir = sum(1 for p in parts if p in ("%s", "%r"))
        if isinstance(node.right, ast.Tuple):
            args = list(node.right.elts)
        elif isinstance(node.right, (ast.Name, ast.Attribute, ast.Call, ast.Subscript, ast.Constant)) and n_dir == 1:
            if isinstance(node.right, (ast.Name, ast.Attribute, ast.Subscript, ast.Call)):
                return node          # a single operand may itself be a tuple at run time: not convertible
            args = [node.right]
        else:
            return node
        if len(args) != n_dir or any(isinstance(a, ast.Starred) for a in args) or n_dir == 0:
            return node
        vals = []
        it = iter(args)
        for p in parts:
            if p in ("%s", "%r"):
                vals.append(ast.FormattedValue(value=next(it), conversion=115 if p == "%s" else 114, format_spec=None))
            elif p:
                vals.append(ast.Constant(value=p))
        return ast.copy_location(ast.JoinedStr(values=vals), node)


class WhileTrue(ast.NodeTransformer):
    """`while C: BODY` (no else clause) becomes `while True: if not C: break; BODY`"""
    def visit_While(self, node):
        self.generic_visit(node)
        if node.orelse or (isinstance(node.test, ast.Constant) and node.test.value is True):
            return node
        guard = ast.If(test=ast.UnaryOp(op=ast.Not(), operand=node.test), body=[ast.Break()], orelse=[])
        node.test = ast.Constant(value=True)
        node.body = [guard] + node.body
        return node


class AugAssignExpand(ast.NodeTransformer):
    """`x += K` / `x -= len(..)` on a plain name or a self attribute with an int constant / len() operand becomes `x = x + K`"""
    def visit_AugAssign(self, node):
        self.generic_visit(node)
        t = node.target
        ok_t = isinstance(t, ast.Name) or (isinstance(t, ast.Attribute) and isinstance(t.value, ast.Name))
        v = node.value
        ok_v = (isinstance(v, ast.Constant) and isinstance(v.value, int)) or (
            isinstance(v, ast.Call) and isinstance(v.func, ast.Name) and v.func.id == "len")
        if not (ok_t and ok_v and isinstance(node.op, (ast.Add, ast.Sub))):
            return node
        import copy as _c
        load = _c.deepcopy(t)
        load.ctx = ast.Load()
        return ast.copy_location(ast.Assign(targets=[t], value=ast.BinOp(left=load, op=node.op, right=v)), node)


class OSErrorAliases(ast.NodeTransformer):
    """Python 3 aliases of OSError spelled as OSError: IOError, EnvironmentError, socket.error (same class objects)"""
    def visit_Name(self, n):
        if isinstance(n.ctx, ast.Load) and n.id in ("IOError", "EnvironmentError"):
            n.id = "OSError"
        return n

    def visit_Attribute(self, n):
        self.generic_visit(n)
        if isinstance(n.ctx, ast.Load) and n.attr == "error" and isinstance(n.value, ast.Name) and n.value.id == "socket":
            return ast.copy_location(ast.Name(id="OSError", ctx=ast.Load()), n)
        return n


MODES = {"whiletrue": WhileTrue, "augassign": AugAssignExpand, "tupleassign": TupleAssign, "withlock": WithLock, "flipcmp": FlipCmp, "earlyret": EarlyRet, "elseify": Elseify, "swapif": SwapIf, "demorgan": DeMorgan, "tmpvar": TmpVar}


def transform(text, mode):
    tree = ast.parse(text)
    if mode in MODES:
        for node in ast.walk(tree):
            if isinstance(node, (ast.FunctionDef, ast.AsyncFunctionDef)):
                MODES[mode]().visit(node)
        ast.fix_missing_locations(tree)
        return ast.unparse(tree) + "\n"
    if mode == "fstrings":
        tree = FStrings().visit(tree)
        ast.fix_missing_locations(tree)
        return ast.unparse(tree) + "\n"
    if mode == "kwcalls":
        tree = KwCalls().visit(tree)
        ast.fix_missing_locations(tree)
        return ast.unparse(tree) + "\n"
    if mode == "oserror":
        tree = OSErrorAliases().visit(tree)
        ast.fix_missing_locations(tree)
        return ast.unparse(tree) + "\n"
    if mode == "pyupgrade":
        tree = PyUpgrade().visit(tree)
        ast.fix_missing_locations(tree)
        return ast.unparse(tree) + "\n"
    if mode == "rename":
        for node in ast.walk(tree):
            if isinstance(node, ast.ClassDef):
                for m in node.body:
                    if isinstance(m, ast.FunctionDef):
                        Renamer(locals_of(m)).visit(m)
        for m in tree.body:
            if isinstance(m, ast.FunctionDef):
                Renamer(locals_of(m)).visit(m)
    return ast.unparse(tree) + "\n"


def main():
    mode = sys.argv[1] if len(sys.argv) > 1 and not sys.argv[1].startswith("-") else "rename"
    tmp = tempfile.mkdtemp(prefix="benign_", dir="/tmp")
    try:
        for sub in ("rpyc", "tests", "bin"):
            if os.path.isdir(os.path.join("/repo", sub)):
                shutil.copytree(os.path.join("/repo", sub), os.path.join(tmp, sub))
        n = 0
        for dp, _, files in os.walk(os.path.join(tmp, "rpyc")):
            for fn in files:
                if fn.endswith(".py"):
                    p = os.path.join(dp, fn)
                    src = open(p, encoding="utf8").read()
                    if "exec(" in src and fn == "compat.py":
                        continue
                    new = transform(src, mode)
                    compile(new, p, "exec")
                    open(p, "w", encoding="utf8").write(new)
                    n += 1
        print("transformed %d modules (%s) in %s" % (n, mode, tmp))
        if "--tests" in sys.argv:
            r = subprocess.run([os.path.join(VERIF, "tools", "run_tests.sh"), tmp], capture_output=True, text=True)
            print("tests:", [l for l in r.stdout.splitlines() if " passed" in l][-1:])
        props = [c["property_id"] for c in json.load(open(os.path.join(VERIF, "MANIFEST.json")))["checks"]]
        bad = 0
        for p in props:
            env = dict(os.environ, VERIF_REPO=tmp, VERIF_EVIDENCE_DIR=os.path.join(tmp, "ev"))
            c = subprocess.run([os.path.join(VERIF, "check"), p], capture_output=True, text=True, env=env)
            if c.returncode != 0:
                bad += 1
                print("== %s rc=%d" % (p, c.returncode))
                for l in c.stdout.splitlines():
                    if ("  R" in l and "floor" not in l) or "ANALYSIS" in l:
                        print("   ", l.strip()[:260])
        print("%s: %d/%d checks silent" % (mode, len(props) - bad, len(props)))
    finally:
        if "--keep" in sys.argv:
            print("kept", tmp)
        else:
            shutil.rmtree(tmp, ignore_errors=True)
main()

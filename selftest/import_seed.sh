#!/bin/sh
# import_seed.sh <PROP> <mN> [outdir] [tag]: copy an agent deliverable into /verif/seeded/<PROP>-<tag><mN>, confirm it, report
P=$1; M=$2; OUT=${3:-/tmp/wt/out}; TAG=${4:-}; D=/verif/seeded/$P-$TAG$M
mkdir -p $D && cp $OUT/$P/$M/patch.diff $OUT/$P/$M/demo.py $OUT/$P/$M/meta.json $D/ 2>/dev/null
/venv/bin/python - "$D/demo.py" <<'PY'
import re, sys
p = sys.argv[1]; s = open(p).read()
s2 = re.sub(r"^(\s*)assert [^\n]*__file__[^\n]*\n", r"\1pass  # (scratch-path assertion removed on import)\n", s, flags=re.M)
s2 = re.sub(r"/tmp/wt/C\d\d", "/repo", s2)
if s2 != s: open(p, "w").write(s2)
PY
/verif/selftest/confirm_seed.py $D > $D/confirm.json 2>&1
grep -E '"confirmed"|patch_applies|demo_unchanged_rc|demo_patched_rc|baseline_missing' $D/confirm.json | tr -d '\n'; echo " <- $P-$TAG$M"

#!/venv/bin/python
"""Re-create a seeded change against /repo HEAD: mkpatch.py <seed dir> <relpath> <old> <new> [relpath old new ...]
(old/new use \\n escapes). Writes <seed dir>/patch.diff from a scratch worktree; /repo itself is not touched."""
import os, subprocess, sys, tempfile, shutil
d = os.path.abspath(sys.argv[1]); a = sys.argv[2:]
wt = tempfile.mkdtemp(prefix="mkp_", dir="/tmp"); os.rmdir(wt)
subprocess.check_call("git -C /repo worktree add -q --detach %s HEAD" % wt, shell=True)
try:
    for i in range(0, len(a), 3):
        rel, old, new = a[i], a[i+1].encode().decode("unicode_escape"), a[i+2].encode().decode("unicode_escape")
        p = os.path.join(wt, rel); s = open(p).read()
        assert old in s, "pattern not found in %s" % rel
        open(p, "w").write(s.replace(old, new, 1))
    diff = subprocess.check_output("git -C %s diff" % wt, shell=True, text=True)
    open(os.path.join(d, "patch.diff"), "w").write(diff)
    print(diff)
finally:
    subprocess.call("git -C /repo worktree remove --force %s" % wt, shell=True); shutil.rmtree(wt, ignore_errors=True)

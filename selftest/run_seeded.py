#!/venv/bin/python
"""Runs the registered quick checks against every kept seeded change (seeded/<id>/patch.diff), each applied to a scratch
copy of /repo's package (never to /repo itself). Prints which checks raise VIOLATION. Development/self-test helper.
usage: run_seeded.py [seed ids...] [--props C01,C02]"""
import json, os, shutil, subprocess, sys, tempfile
from concurrent.futures import ThreadPoolExecutor

VERIF = os.path.dirname(os.path.dirname(os.path.abspath(__file__)))

def claimed():
    return [c["property_id"] for c in json.load(open(os.path.join(VERIF, "MANIFEST.json")))["checks"]]

def run_one(seed, props):
    d = os.path.join(VERIF, "seeded", seed)
    tmp = tempfile.mkdtemp(prefix="seedrun_", dir="/tmp")
    try:
        shutil.copytree("/repo/rpyc", os.path.join(tmp, "rpyc"))
        r = subprocess.run("patch -p1 -s --no-backup-if-mismatch -d %s < %s" % (tmp, os.path.join(d, "patch.diff")),
                           shell=True, capture_output=True, text=True)
        if r.returncode != 0:
            return seed, None, "patch does not apply: " + (r.stdout + r.stderr)[-200:]
        res = {}
        for p in props:
            env = dict(os.environ, VERIF_REPO=tmp, VERIF_EVIDENCE_DIR=os.path.join(tmp, "ev"))
            c = subprocess.run([os.path.join(VERIF, "check"), p], capture_output=True, text=True, env=env)
            res[p] = (c.returncode, [l.strip() for l in c.stdout.splitlines() if "  R" in l and "floor" not in l][:4])
        return seed, res, None
    finally:
        shutil.rmtree(tmp, ignore_errors=True)

def main():
    args = [a for a in sys.argv[1:] if not a.startswith("--")]
    props = claimed()
    for a in sys.argv[1:]:
        if a.startswith("--props"):
            props = a.split("=", 1)[1].split(",")
    seeds = args or sorted(os.listdir(os.path.join(VERIF, "seeded")))
    seeds = [s for s in seeds if os.path.exists(os.path.join(VERIF, "seeded", s, "patch.diff"))]
    with ThreadPoolExecutor(15) as ex:
        results = list(ex.map(lambda s: run_one(s, props), seeds))
    for seed, res, err in results:
        meta = {}
        try:
            meta = json.load(open(os.path.join(VERIF, "seeded", seed, "meta.json")))
        except Exception:
            pass
        target = meta.get("property", "?")
        if err:
            print("%-14s target=%s  ERROR %s" % (seed, target, err)); continue
        viol = [p for p, (rc, _) in res.items() if rc == 1]
        errs = [p for p, (rc, _) in res.items() if rc == 2]
        hit = "CAUGHT" if target in viol else ("caught-elsewhere" if viol else "MISSED")
        print("%-14s target=%s  %s  violations=%s%s" % (seed, target, hit, viol, ("  analysis-errors=%s" % errs) if errs else ""))
        for p in viol:
            for l in res[p][1][:2]:
                print("      %s: %s" % (p, l[:170]))
main()

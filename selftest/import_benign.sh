#!/bin/sh
# import_benign.sh <outdir> <first-session-number>: copies /tmp/wt/<outdir>/B5..B10/bN/{patch.diff,meta.json} to
# /verif/benign/B<k>-bN (k = first, first+1, ...)
OUT=$1; K=$2
for S in B5 B6 B7 B8 B9 B10; do
  for N in 1 2 3 4 5 6 7 8; do
    if [ -f $OUT/$S/b$N/patch.diff ]; then
      D=/verif/benign/B$K-b$N; mkdir -p $D; cp $OUT/$S/b$N/patch.diff $OUT/$S/b$N/meta.json $D/ 2>/dev/null
    fi
  done
  K=$((K+1))
done
ls /verif/benign | wc -l

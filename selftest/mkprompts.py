#!/venv/bin/python
"""Writes the prompts for a wave of independent sub-agents (seeded changes or behaviour-preserving refactorings).
The sub-agents get: the common brief, ONE property statement (seeded waves) or a file list (benign waves), their own scratch
worktree under /tmp/wt, and the list of ideas already used - never anything from /verif's checkers.
usage: mkprompts.py seeds <wave-no> <focus-file>   -> /tmp/wt/prompt<wave>_CNN.txt
       mkprompts.py benign <round-no> <focus-file> -> /tmp/wt/promptB<round>_B<k>.txt  (k = 5..10)"""
import json, os, sys

VERIF = os.path.dirname(os.path.dirname(os.path.abspath(__file__)))
NEIGH = {"C01": ["C02", "C03", "C08"], "C02": ["C01", "C06", "C03"], "C03": ["C04", "C10", "C01"], "C04": ["C19", "C03"],
         "C05": ["C19", "C11", "C12"], "C06": ["C07", "C02"], "C07": ["C06", "C09", "C16"], "C08": ["C13", "C01", "C12"],
         "C09": ["C07", "C08"], "C10": ["C03", "C11"], "C11": ["C05", "C10", "C17"], "C12": ["C13", "C05", "C08"],
         "C13": ["C12", "C14", "C08"], "C14": ["C13", "C15"], "C15": ["C14", "C08"], "C16": ["C17", "C07", "C11"],
         "C17": ["C16", "C11"], "C18": ["C04", "C16"], "C19": ["C04", "C05"], "C20": ["C05", "C02"]}
BENIGN_FILES = {
    "B5": "rpyc/core/protocol.py (any part of class Connection), rpyc/core/async_.py",
    "B6": "rpyc/utils/server.py, rpyc/utils/helpers.py, rpyc/utils/factory.py",
    "B7": "rpyc/utils/registry.py, rpyc/utils/classic.py, rpyc/core/service.py",
    "B8": "rpyc/core/brine.py, rpyc/core/vinegar.py",
    "B9": "rpyc/core/channel.py, rpyc/core/stream.py, rpyc/lib/compat.py, rpyc/lib/__init__.py",
    "B10": "rpyc/core/netref.py, rpyc/lib/colls.py, rpyc/core/protocol.py (boxing/unboxing and the handlers)"}


def props():
    out = {}
    for l in open(os.path.join(VERIF, "properties.jsonl")):
        d = json.loads(l)
        out[d["id"]] = d
    return out


def used_seeds():
    out = {}
    sd = os.path.join(VERIF, "seeded")
    for s in sorted(os.listdir(sd)):
        try:
            m = json.load(open(os.path.join(sd, s, "meta.json")))
        except Exception:
            continue
        out.setdefault(m.get("property", s[:3]), []).append(" ".join(str(m.get("summary", "")).split()))
    return out


def main():
    kind, wave, focus = sys.argv[1], sys.argv[2], open(sys.argv[3]).read().strip()
    if kind == "seeds":
        common = open("/tmp/wt/COMMON.md").read()
        P, U = props(), used_seeds()
        for pid, d in sorted(P.items()):
            lines = [common.rstrip(), "Your scratch worktree is /tmp/wt/%s (a git worktree of the rpyc repository). Your output directory is "
                     "/tmp/wt/out%s/%s. Do not touch /repo or /verif." % (pid, wave, pid), "", "The property to break:", "",
                     "Property %s — %s" % (pid, d.get("title", "")), "Statement: %s" % d.get("statement", ""),
                     "Quantified over: %s" % d.get("quantifier", {}).get("text", ""),
                     "Relevant files: %s" % ", ".join(d.get("anchors", {}).get("files", [])),
                     "", focus, "", "Already used (do not repeat):"]
            for s in U.get(pid, []):
                lines.append(" - [this property] " + s[:300])
            for n in NEIGH.get(pid, []):
                for s in U.get(n, [])[-8:]:
                    lines.append(" - " + s[:100])
            open("/tmp/wt/prompt%s_%s.txt" % (wave, pid), "w").write("\n".join(lines) + "\n")
        print("wrote %d prompts" % len(P))
    else:
        base = open("/tmp/wt/BENIGN.md").read().replace("EIGHT", "SIX").replace("(1..8)", "(1..6)")
        used = []
        bd = os.path.join(VERIF, "benign")
        for b in sorted(os.listdir(bd)):
            try:
                used.append(" ".join(json.load(open(os.path.join(bd, b, "meta.json"))).get("summary", "").split())[:160])
            except Exception:
                pass
        for k, files in BENIGN_FILES.items():
            txt = "%s\n\n\nYour scratch worktree is /tmp/wt/%s. Your output directory is /tmp/wt/outB%s/%s (create it). Files to edit: %s.\n\n%s\nAlready used:\n%s\n" % (
                base.rstrip(), k, wave, k, files, focus, "\n".join(" - " + u for u in used))
            open("/tmp/wt/promptB%s_%s.txt" % (wave, k), "w").write(txt)
        print("wrote %d prompts" % len(BENIGN_FILES))
main()

#!/bin/sh
# mk.sh <seed-id>: scratch copy of /repo's package with the seed applied, at /tmp/mk/<seed-id>; prints the dir
D=/tmp/mk/$1; rm -rf $D; mkdir -p $D; cp -r /repo/rpyc $D/rpyc
patch -p1 -s --no-backup-if-mismatch -d $D < /verif/seeded/$1/patch.diff || exit 3
echo $D

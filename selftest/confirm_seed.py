#!/venv/bin/python
"""Confirm a candidate seeded change: (1) demo exits 0 on the unchanged tree, (2) patch applies, demo exits != 0,
(3) the 57 baseline tests still pass with the patch. Works in a scratch git worktree of /repo HEAD under /tmp (removed afterwards).
usage: confirm_seed.py <dir with patch.diff + demo.py> [--no-tests]"""
import json, os, re, shutil, subprocess, sys, tempfile

def sh(cmd, **kw):
    return subprocess.run(cmd, shell=True, capture_output=True, text=True, **kw)

def main():
    d = os.path.abspath(sys.argv[1])
    run_tests = "--no-tests" not in sys.argv
    wt = tempfile.mkdtemp(prefix="seedwt_", dir="/tmp")
    os.rmdir(wt)
    r = sh("git -C /repo worktree add -q --detach %s HEAD" % wt)
    assert r.returncode == 0, r.stderr
    out = {"dir": d}
    try:
        env = dict(os.environ, PYTHONPATH=wt)
        r0 = subprocess.run(["/venv/bin/python", os.path.join(d, "demo.py")], cwd=wt, env=env, capture_output=True, text=True, timeout=300)
        out["demo_unchanged_rc"] = r0.returncode
        ap = sh("git -C %s apply --whitespace=nowarn %s" % (wt, os.path.join(d, "patch.diff")))
        if ap.returncode != 0:
            ap = sh("git -C %s apply --3way --whitespace=nowarn %s" % (wt, os.path.join(d, "patch.diff")))
        out["patch_applies"] = ap.returncode == 0
        if ap.returncode != 0:
            out["apply_error"] = ap.stderr[-500:]
        else:
            r1 = subprocess.run(["/venv/bin/python", os.path.join(d, "demo.py")], cwd=wt, env=env, capture_output=True, text=True, timeout=300)
            out["demo_patched_rc"] = r1.returncode
            out["demo_patched_tail"] = (r1.stdout + r1.stderr)[-400:]
            if run_tests:
                t = sh("/verif/tools/run_tests.sh %s" % wt, timeout=900)
                passed = set()
                for l in t.stdout.splitlines():
                    m = re.match(r"PASSED (tests/\S+)::(\S+)::(\S+)", l)
                    if m:
                        passed.add(m.group(1)[:-3].replace("/", ".") + "." + m.group(2) + "::" + m.group(3))
                base = set(json.load(open("/root/.vp/BASELINE.json"))["stable_pass"])
                out["baseline_missing_with_patch"] = sorted(base - passed)
                out["tests_passed"] = len(passed)
    finally:
        sh("git -C /repo worktree remove --force %s" % wt)
        shutil.rmtree(wt, ignore_errors=True)
    ok = out.get("demo_unchanged_rc") == 0 and out.get("patch_applies") and out.get("demo_patched_rc", 0) != 0 and \
        (not run_tests or out.get("baseline_missing_with_patch") == [])
    out["confirmed"] = bool(ok)
    print(json.dumps(out, indent=1))
    return 0 if ok else 1
sys.exit(main())
